from guppylang import guppy
from guppylang.std.builtins import result, nat
@guppy
def f(a: int, b: int) -> None:
    result("fd", a // b)
    result("md", a % b)
    result("shr", a >> 1)
    result("shl", a << 1)
    result("abs", abs(a))
@guppy
def main() -> None:
    f(-7, -2)
    f(-7, 2)
    f(7, -2)
    f(-9223372036854775807 - 1, -1)
    f(-8, 3)
r = main.emulator(n_qubits=1).with_seed(1).run()
print(list(r.results[0].entries))
