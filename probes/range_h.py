import ast
SRC = open("/repo/guppylang/src/guppylang/std/iter.py").read()
tree = ast.parse(SRC)
cls = next(n for n in tree.body if isinstance(n, ast.ClassDef) and n.name == "Range")
M = 1 << 64; H = 1 << 63
def wrap(v): return ((v + H) % M) - H
class I64:
    __slots__ = ("v",)
    def __init__(self, v): self.v = v
    def __add__(self, o): return I64(wrap(self.v + o.v))
    def __ge__(self, o): return self.v >= (o.v if isinstance(o, I64) else o)
    def __le__(self, o): return self.v <= (o.v if isinstance(o, I64) else o)
class Range:
    def __init__(self, next, stop, step): self.next = next; self.stop = stop; self.step = step
class Opt:
    def __init__(self, v): self.v = v
def some(x): return Opt((x,))
def nothing(): return Opt(None)
ns = {"Range": Range, "some": some, "nothing": nothing}
for fn in cls.body:
    if isinstance(fn, ast.FunctionDef) and fn.name == "__next__":
        fn = ast.FunctionDef(name="rnext", args=ast.arguments(posonlyargs=[], args=[ast.arg(arg="self")], kwonlyargs=[], kw_defaults=[], defaults=[]), body=fn.body, decorator_list=[], type_params=[])
        exec(compile(ast.fix_missing_locations(ast.Module(body=[fn], type_ignores=[])), "<range>", "exec"), ns)
rnext = ns["rnext"]
L = 4
def seq(start: int, stop: int, step: int) -> bool:
    """
    pre: -(1<<63) <= start < (1<<63) and -(1<<63) <= stop < (1<<63) and -(1<<63) <= step < (1<<63) and step != 0
    post: _
    """
    r = Range(I64(start), I64(stop), I64(step))
    n = len(range(start, stop, step))
    for i in range(L):
        o = rnext(r)
        if i < n:
            if o.v is None: return False
            val, r = o.v[0]
            if val.v != start + i * step: return False
        else:
            return o.v is None
    return True
def seq_nooverflow(start: int, stop: int, step: int) -> bool:
    """
    pre: -(1<<63) <= start < (1<<63) and -(1<<63) <= stop < (1<<63) and -(1<<63) <= step < (1<<63) and step != 0
    pre: -(1<<63) <= start + len(range(start, stop, step)) * step < (1<<63)
    post: _
    """
    return seq(start, stop, step)
