from guppylang_internals.diagnostic import wrap
def total(text: str, width: int) -> bool:
    """
    pre: 1 <= len(text) <= 3 and 2 <= width <= 3
    pre: all(c in "ab \\n-" for c in text)
    post: _
    """
    try:
        lines = wrap(text, width)
    except Exception:
        return False
    words_in = text.split()
    words_out = " ".join(lines).split()
    return words_in == words_out
