"""C10 probe: check_rows_match with the iteration order of `map1.keys() | map2.keys()` made a symbolic input."""
import sys, os, ast, inspect, textwrap, itertools
sys.path.insert(0, os.path.dirname(os.path.abspath(__file__))); import shim
import guppylang
import guppylang_internals.checker.cfg_checker as C
from guppylang_internals.checker.core import Variable
from guppylang_internals.cfg.bb import BB, VariableStats
from guppylang_internals.tys.ty import NumericType
from guppylang_internals.tys.builtin import bool_type
from guppylang_internals.error import GuppyError
from guppylang_internals.ast_util import annotate_location

src = textwrap.dedent(inspect.getsource(C.check_rows_match))
fn = ast.parse(src).body[0]
n_sites = 0
class R(ast.NodeTransformer):
    def visit_For(self, node):
        global n_sites
        self.generic_visit(node)
        n_sites += 1
        node.iter = ast.Call(func=ast.Name(id="_order", ctx=ast.Load()), args=[node.iter], keywords=[])
        return node
fn = R().visit(fn); fn.returns = None
for a in fn.args.args: a.annotation = None
assert n_sites == 1
PERM = {"k": 0}
def _order(it):
    xs = list(it)
    if isinstance(it, (set, frozenset)) or type(it).__name__ in ("dict_keys",) or True:
        xs = sorted(xs)
        perms = list(itertools.permutations(xs))
        return list(perms[PERM["k"] % len(perms)])
    return xs
ns = dict(C.__dict__); ns["_order"] = _order
exec(compile(ast.fix_missing_locations(ast.Module(body=[fn], type_ignores=[])), "<rows>", "exec"), ns)
rows_match = ns["check_rows_match"]

TYS = [NumericType(NumericType.Kind.Int), NumericType(NumericType.Kind.Float), bool_type()]
SRC = "a = 1\nb = 2\nc = 3\n"
mod = ast.parse(SRC); annotate_location(mod, SRC, "<rows>", 1)
NODES = {n.targets[0].id: n.targets[0] for n in mod.body}

def outcome(t1, t2, k):
    names = ["a", "b", "c"]
    class FakeCFG: pass
    cfg = FakeCFG(); bb = BB(0, cfg)
    bb._vars = VariableStats(used={x: NODES[x] for x in names})
    cfg.live_before = {bb: {x: bb for x in names}}
    row1 = [Variable(x, TYS[t], NODES[x]) for x, t in zip(names, t1)]
    row2 = [Variable(x, TYS[t], NODES[x]) for x, t in zip(names, t2)]
    PERM["k"] = k
    try:
        rows_match(row1, row2, bb); return "ok"
    except GuppyError as e:
        return e.error.ident

def order_indep(a1: int, b1: int, c1: int, a2: int, b2: int, c2: int, k1: int, k2: int) -> bool:
    """
    pre: all(0 <= t < 3 for t in (a1, b1, c1, a2, b2, c2)) and 0 <= k1 < 6 and 0 <= k2 < 6
    post: _
    """
    return outcome((a1, b1, c1), (a2, b2, c2), k1) == outcome((a1, b1, c1), (a2, b2, c2), k2)
