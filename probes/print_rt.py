import sys, ast, inspect
sys.path.insert(0, __import__("os").path.dirname(__import__("os").path.abspath(__file__))); import shim
import guppylang
from guppylang.std.builtins import array, nat
from guppylang.std.option import Option
from guppylang_internals.tys.ty import TupleType, NumericType, NoneType
from guppylang_internals.tys.builtin import array_type, option_type, bool_type, string_type, frozenarray_type
from guppylang_internals.tys.parsing import type_from_ast, TypeParsingCtx
from guppylang_internals.checker.core import Globals
from guppylang_internals.ast_util import annotate_location
INT = NumericType(NumericType.Kind.Int)
g = Globals(inspect.currentframe())
def rt(ty):
    s = str(ty)
    node = ast.parse(s, mode="eval").body
    annotate_location(node, s, "<ty>", 1)
    back = type_from_ast(node, TypeParsingCtx(g))
    return s, back == ty, str(back)
for ty in [INT, TupleType([INT, bool_type()]), TupleType([INT]), TupleType([]), array_type(TupleType([INT, INT]), 3), option_type(array_type(INT, 2)), NoneType(), string_type(), TupleType([TupleType([INT])])]:
    try: print(rt(ty))
    except Exception as e: print(str(ty), "EXC", type(e).__name__, e)
