import sys
sys.path.insert(0, __import__("os").path.dirname(__import__("os").path.abspath(__file__))); import shim
from guppylang_internals.tracing.builtins_mock import mock_builtins

class Boom(Exception): pass
SENT = [object(), object(), object()]
NAMES = ["int", "float", "len"]

def mk(has_int: bool, has_float: bool, has_len: bool):
    g = {"__builtins__": __builtins__, "other": 42}
    for n, h, s in zip(NAMES, (has_int, has_float, has_len), SENT):
        if h: g[n] = s
    f = eval("lambda: 0", g)
    return f, g

def restore(h1: bool, h2: bool, h3: bool, nested: bool, raise_outer: bool, raise_inner: bool, user_mut: int) -> bool:
    """
    pre: 0 <= user_mut < 5
    post: _
    """
    f, g = mk(h1, h2, h3)
    snap = {k: v for k, v in g.items()}
    try:
        with mock_builtins(f):
            if nested:
                try:
                    with mock_builtins(f):
                        if raise_inner: raise Boom()
                except Boom:
                    pass
            if raise_outer: raise Boom()
    except Boom:
        pass
    return {k: v for k, v in g.items()} == snap and list(g.keys()) == list(snap.keys())
