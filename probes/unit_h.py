import sys, ast
sys.path.insert(0, __import__("os").path.dirname(__import__("os").path.abspath(__file__))); import shim
import guppylang  # registers std
from guppylang.std.quantum import qubit
from guppylang_internals.checker.unitary_checker import BBUnitaryChecker
from guppylang_internals.checker.cfg_checker import CheckedBB, CheckedCFG, Signature
from guppylang_internals.nodes import LocalCall, PlaceNode
from guppylang_internals.checker.core import Variable
from guppylang_internals.ast_util import with_type
from guppylang_internals.tys.ty import FunctionType, FuncInput, InputFlags, UnitaryFlags, NoneType, NumericType
from guppylang_internals.tys.qubit import qubit_ty
from guppylang_internals.error import GuppyError

Q = qubit_ty(); I = NumericType(NumericType.Kind.Int)
FLAGS = [UnitaryFlags(i) for i in range(8)]

def place(name, ty):
    return with_type(ty, PlaceNode(place=Variable(name, ty, None)))

def mkcall(callee_flags, arg_nodes, ret=NoneType()):
    fty = FunctionType([FuncInput(a.type, InputFlags.Inout if a.type == Q else InputFlags.NoFlags) for a in arg_nodes], ret, unitary_flags=callee_flags)
    fn = with_type(fty, ast.Name(id="f", ctx=ast.Load()))
    return with_type(ret, LocalCall(func=fn, args=arg_nodes))

def chk(ctx: int, callee: int, inner: int, shape: int, in_pred: bool) -> bool:
    """
    pre: 0 <= ctx < 8 and 0 <= callee < 8 and 0 <= inner < 8 and 0 <= shape < 4
    post: _
    """
    cf, kf, inf = FLAGS[ctx], FLAGS[callee], FLAGS[inner]
    # inner call g(q2) -> int, with its own flags
    innercall = mkcall(inf, [place("q2", Q)], I)
    if shape == 0:   args = [place("q", Q)]                # quantum only
    elif shape == 1: args = [place("x", I)]                # classical only
    elif shape == 2: args = [place("q", Q), innercall]     # qubit first, then nested call arg
    else:            args = [innercall, place("q", Q)]     # nested call first
    call = mkcall(kf, args)
    cfg = CheckedCFG([], NoneType())
    if in_pred:
        bb = CheckedBB(0, cfg, [], branch_pred=with_type(I, mkcall(kf, args, I)))
    else:
        bb = CheckedBB(0, cfg, [ast.Expr(value=call)])
    try:
        BBUnitaryChecker().check(bb, cf); rejected = False
    except GuppyError:
        rejected = True
    def bad(ctxf, calleef): return (ctxf & ~calleef) != UnitaryFlags.NoFlags
    has_q_outer = shape in (0, 2, 3)
    must_reject = (has_q_outer and bad(cf, kf)) or (shape in (2, 3) and bad(cf, inf))
    return rejected == must_reject
