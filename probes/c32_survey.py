import sys, os, importlib, textwrap, tempfile
sys.path.insert(0, os.path.dirname(os.path.abspath(__file__))); import shim
from guppylang_internals.error import GuppyError
import guppylang; guppylang.enable_experimental_features()
CASES = {
 "while_else": "s = 0\n    while s < x:\n        s += 1\n    else:\n        s += 100\n    return s",
 "for_else": "s = 0\n    for i in range(x):\n        s += 1\n    else:\n        s += 100\n    return s",
 "kwarg_call": "return g(a=x)",
 "nested_decorator": "@deco\n    def inner(a: int) -> int:\n        return a\n    return inner(x)",
 "nested_default": "def inner(a: int = 5) -> int:\n        return a\n    return inner(x)",
 "chained_assign": "a = b = x\n    return a + b",
 "del_stmt": "a = x\n    del a\n    return x",
 "assert_stmt": "assert x > 0\n    return x",
 "try_stmt": "try:\n        a = x\n    except Exception:\n        a = 0\n    return a",
 "lambda": "f = lambda a: a\n    return x",
 "global_stmt": "global GG\n    return x",
 "bare_ann": "a: int\n    a = x\n    return a",
 "is_cmp": "return 1 if x is x else 0",
 "in_cmp": "return 1 if x in (1, 2) else 0",
 "slice": "t = (x, x, x)\n    u = t[0:2]\n    return x",
 "dict_lit": "d = {1: x}\n    return x",
 "fstring": "s = f'{x}'\n    return x",
 "star_call": "t = (x,)\n    return g(*t)",
 "walrus": "return (a := x) + a",
 "pass_stmt": "pass\n    return x",
 "docstring_mid": "a = x\n    'just a string'\n    return a",
 "aug_tuple": "a, b = x, x\n    a += b\n    return a",
 "nested_return_none": "def inner(a: int) -> None:\n        return\n    inner(x)\n    return x",
 "if_else_exp_stmt": "x if x > 0 else -x\n    return x",
 "ann_assign_coerce": "a: float = x\n    return x",
 "match_stmt": "match x:\n        case 1:\n            return 1\n        case _:\n            return 0",
 "with_as": "with open('f') as fh:\n        pass\n    return x",
 "raise_stmt": "raise ValueError()\n    return x",
 "return_in_loop_else": "for i in range(x):\n        pass\n    else:\n        return 7\n    return x",
 "ellipsis_stmt": "...\n    return x",
 "not_in": "return 1 if x not in (1,) else 0",
 "starred_assign": "a, *b = (x, x, x)\n    return a",
 "set_lit": "s = {x}\n    return x",
 "list_comp_if": "ys = [i for i in range(x) if i > 1]\n    return x",
 "nonlocal_stmt": "def inner() -> int:\n        nonlocal x\n        return 1\n    return x",
 "type_comment": "a = x  # type: int\n    return a",
 "semicolon": "a = x; a = a + 1\n    return a",
 "cond_expr_call_kw": "return abs(x) if x else 0",
 "unary_plus": "return +x",
 "power_neg": "return x ** 2",
 "bool_ops_value": "return 1 if (x and x) else 0",
}
HEADER = '''
from guppylang import guppy
from guppylang.std.builtins import result
@guppy.declare
def g(a: int) -> int: ...
def deco(f): return f
GG = 3
'''
d = tempfile.mkdtemp(prefix="c32")
sys.path.insert(0, d)
for name, body in CASES.items():
    path = os.path.join(d, f"m_{name}.py")
    open(path, "w").write(HEADER + f"\n@guppy\ndef prog(x: int) -> int:\n    {body}\n")
    try:
        m = importlib.import_module(f"m_{name}")
        try:
            m.prog.check(); v = "ACCEPTED"
        except GuppyError as e:
            v = "GuppyError:" + type(e.error).__name__ + ":" + str(getattr(e.error, "rendered_span_label", ""))[:60]
    except BaseException as e:
        v = "OTHER:" + type(e).__name__ + ":" + str(e)[:80]
    print(f"{name:24s} {v}")
