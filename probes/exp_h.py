import guppylang_internals.experimental as E
from guppylang_internals.error import GuppyError

class Boom(Exception): pass

def gate_open() -> bool:
    try:
        E.check_lists_enabled(None); a = True
    except GuppyError:
        a = False
    return a

def run(ops: list[int], depth: int, init: bool) -> bool:
    """
    pre: len(ops) <= 4 and all(0 <= o < 6 for o in ops)
    post: _
    """
    # interpret ops as a nesting program: 0 = enter enable ctx, 1 = enter disable ctx, 2 = exit innermost ctx normally,
    # 3 = exit innermost via exception, 4 = bare enable() call, 5 = bare disable() call
    E.EXPERIMENTAL_FEATURES_ENABLED = init
    stack = []   # (ctx, expected_restore)
    model = init
    ok = True
    for o in ops:
        if o == 0:
            c = E.enable_experimental_features(); c.__enter__(); stack.append((c, model)); model = True
        elif o == 1:
            c = E.disable_experimental_features(); c.__enter__(); stack.append((c, model)); model = False
        elif o == 2 and stack:
            c, prev = stack.pop(); c.__exit__(None, None, None); model = prev
        elif o == 3 and stack:
            c, prev = stack.pop(); e = Boom(); c.__exit__(Boom, e, None); model = prev
        elif o == 4:
            E.enable_experimental_features(); model = True
        elif o == 5:
            E.disable_experimental_features(); model = False
        ok = ok and (E.EXPERIMENTAL_FEATURES_ENABLED == model) and (gate_open() == model)
    return ok
