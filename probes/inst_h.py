import sys
sys.path.insert(0, __import__("os").path.dirname(__import__("os").path.abspath(__file__))); import shim
from guppylang_internals.tys.ty import (BoundTypeVar, NumericType, TupleType, NoneType, FunctionType, FuncInput, InputFlags)
from guppylang_internals.tys.param import TypeParam, ConstParam
from guppylang_internals.tys.const import BoundConstVar, ConstValue
from guppylang_internals.tys.arg import TypeArg, ConstArg
from guppylang_internals.tys.builtin import array_type, option_type

INT = NumericType(NumericType.Kind.Int); NAT = NumericType(NumericType.Kind.Nat); FLT = NumericType(NumericType.Kind.Float)
CLOSED = [INT, FLT, NoneType(), TupleType([INT, FLT]), option_type(INT)]

def mkparams(kinds):
    ps = []
    for i, k in enumerate(kinds):
        ps.append(TypeParam(i, f"T{i}", False, False) if k == 0 else ConstParam(i, f"n{i}", NAT))
    return ps
def ref(ps, i):
    p = ps[i]
    return p.to_bound()
def leaf(ps, sel):
    # a type mentioning param sel%len(ps) appropriately
    i = sel % len(ps)
    p = ps[i]
    if isinstance(p, TypeParam):
        tv = p.to_bound().ty
        return [tv, option_type(tv), TupleType([tv, INT])][(sel // len(ps)) % 3]
    cv = p.to_bound().const
    return array_type(INT, cv)
def arg_for(p, sel):
    if isinstance(p, TypeParam): return TypeArg(CLOSED[sel % len(CLOSED)])
    return ConstArg(ConstValue(NAT, sel % 3))

def law(k0: int, k1: int, k2: int, l0: int, l1: int, lo: int, m0: bool, m1: bool, m2: bool, a0: int, a1: int, a2: int) -> bool:
    """
    pre: 0 <= k0 <= 1 and 0 <= k1 <= 1 and 0 <= k2 <= 1
    pre: 0 <= l0 < 9 and 0 <= l1 < 9 and 0 <= lo < 9 and 0 <= a0 < 5 and 0 <= a1 < 5 and 0 <= a2 < 5
    post: _
    """
    ps = mkparams([k0, k1, k2])
    f = FunctionType([FuncInput(leaf(ps, l0), InputFlags.NoFlags), FuncInput(leaf(ps, l1), InputFlags.NoFlags)], leaf(ps, lo), ps)
    full = [arg_for(p, a) for p, a in zip(ps, (a0, a1, a2))]
    mask = [m0, m1, m2]
    partial = [x if m else None for x, m in zip(full, mask)]
    g = f.instantiate_partial(partial)
    # remaining params renumbered 0..k-1
    if [p.idx for p in g.params] != list(range(len(g.params))): return False
    if [p.name for p in g.params] != [p.name for p, m in zip(ps, mask) if not m]: return False
    rest = [x for x, m in zip(full, mask) if not m]
    lhs = g.instantiate(rest)
    rhs = f.instantiate(full)
    return lhs == rhs and not lhs.params and not lhs.bound_vars
