from dataclasses import dataclass
from typing import ClassVar
from guppylang_internals.diagnostic import DiagnosticsRenderer, Error
from guppylang_internals.span import Loc, Span, SourceMap

@dataclass(frozen=True)
class MyErr(Error):
    title: ClassVar[str] = "T"
    span_label: ClassVar[str] = "lab"

def render(indent: int, pre: int, width: int, nlines_before: int) -> bool:
    """
    pre: 0 <= indent <= 20 and 0 <= pre <= 6 and 1 <= width <= 6 and 0 <= nlines_before <= 3
    post: _
    """
    line = " " * indent + "a" * pre + "X" * width + "b"
    lines = ["    ctx%d" % i for i in range(nlines_before)] + [line]
    sm = SourceMap(); sm.add_file("f", "\n".join(lines))
    ln = nlines_before + 1
    span = Span(Loc("f", ln, indent + pre), Loc("f", ln, indent + pre + width))
    r = DiagnosticsRenderer(sm)
    r.render_diagnostic(MyErr(span))
    buf = r.buffer
    # find the rendered source line with its line number and the highlight line under it
    src_idx = [i for i, l in enumerate(buf) if l.startswith("%d | " % ln) or l.startswith(" %d | " % ln)]
    if len(src_idx) != 1: return False
    src = buf[src_idx[0]]; hl = buf[src_idx[0] + 1]
    bar = src.index(" | ") + 3
    col0 = src.index("X")
    marks = [i for i, ch in enumerate(hl) if ch == "^"]
    return marks == list(range(col0, col0 + width)) and src[bar:].strip() == line.strip()
