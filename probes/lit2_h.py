import sys, ast
sys.path.insert(0, __import__("os").path.dirname(__import__("os").path.abspath(__file__))); import shim
from guppylang_internals.checker.expr_checker import python_value_to_guppy_type
from guppylang_internals.tys.builtin import nat_type, int_type
from guppylang_internals.error import GuppyTypeError
NODE = ast.parse("0", mode="eval").body
from guppylang_internals.ast_util import annotate_location
annotate_location(NODE, "0", "<lit>", 1)
def lit(v: int) -> str:
    """
    pre: v < -(2**63)
    post: _ == "rejected"
    """
    try:
        ty = python_value_to_guppy_type(v, NODE, None, None)
        return "accepted:" + str(ty)
    except GuppyTypeError:
        return "rejected"
    except Exception as e:
        return "exc:" + type(e).__name__ + ":" + str(e)[:200]
