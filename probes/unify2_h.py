import sys
sys.path.insert(0, __import__("os").path.dirname(__import__("os").path.abspath(__file__))); import shim
import z3
from crosshair.tracers import NoTracing
from guppylang_internals.tys.ty import (ExistentialTypeVar, NumericType, TupleType, NoneType, unify, Type)
from guppylang_internals.tys.builtin import option_type, array_type
from guppylang_internals.tys.const import ExistentialConstVar, ConstValue
from guppylang_internals.tys.arg import TypeArg, ConstArg

INT = NumericType(NumericType.Kind.Int); NAT = NumericType(NumericType.Kind.Nat)
VARS = [ExistentialTypeVar("a", 100, True, True), ExistentialTypeVar("b", 101, True, True), ExistentialTypeVar("c", 102, True, True)]
CV = [ExistentialConstVar(NAT, "n", 200)]

def leaf(k):
    if k == 0: return INT
    if k == 1: return NoneType()
    return VARS[(k - 2) % 3]
def mk(shape, a, b):
    if shape == 0: return leaf(a)
    if shape == 1: return TupleType([leaf(a), leaf(b)])
    if shape == 2: return TupleType([leaf(a), option_type(leaf(b))])
    if shape == 3: return option_type(TupleType([leaf(a), leaf(b)]))
    if shape == 4: return array_type(leaf(a), CV[0] if b % 2 else 2)
    return array_type(leaf(a), 3)

# ---- z3 ADT oracle (runs untraced, private context)
def oracle(t1, t2, sigma):
    ctx = z3.Context()
    Ty = z3.Datatype("Ty", ctx=ctx)
    Ty.declare("int"); Ty.declare("none")
    Ty.declare("tup", ("t0", Ty), ("t1", Ty)); Ty.declare("opt", ("o", Ty)); Ty.declare("arr", ("el", Ty), ("n", z3.IntSort(ctx)))
    Ty = Ty.create()
    tv = {v.id: z3.Const(f"v{v.id}", Ty) for v in VARS}
    cv = {v.id: z3.Int(f"c{v.id}", ctx=ctx) for v in CV}
    def enc(t):
        if isinstance(t, ExistentialTypeVar): return tv[t.id]
        if isinstance(t, NumericType): return Ty.int
        if isinstance(t, NoneType): return Ty.none
        if isinstance(t, TupleType): return Ty.tup(enc(t.element_types[0]), enc(t.element_types[1]))
        name = t.defn.name
        if name == "Option": return Ty.opt(enc(t.args[0].ty))
        if name == "array":
            c = t.args[1].const
            return Ty.arr(enc(t.args[0].ty), cv[c.id] if isinstance(c, ExistentialConstVar) else z3.IntVal(c.value, ctx=ctx))
        raise AssertionError(name)
    def encc(c): return cv[c.id] if isinstance(c, ExistentialConstVar) else z3.IntVal(c.value, ctx=ctx)
    s = z3.Solver(ctx=ctx)
    eq = enc(t1) == enc(t2)
    s.add(eq); unifiable = str(s.check()) == "sat"
    if sigma is None:
        return unifiable, True, True
    sig = []
    for v, t in sigma.items():
        sig.append((tv[v.id] == enc(t)) if isinstance(v, ExistentialTypeVar) else (cv[v.id] == encc(t)))
    s1 = z3.Solver(ctx=ctx); s1.add(eq, z3.Not(z3.And(*sig, ctx)) if sig else z3.BoolVal(False, ctx=ctx)); implied = str(s1.check()) == "unsat"
    s2 = z3.Solver(ctx=ctx); s2.add(*sig); s2.add(z3.Not(eq)); implies = str(s2.check()) == "unsat"
    return unifiable, implied, implies

CNT = [0]
import atexit; atexit.register(lambda: print("paths", CNT[0]))
def spec(s1:int,a1:int,b1:int,s2:int,a2:int,b2:int) -> bool:
    """
    pre: 0<=s1<6 and 0<=s2<6 and 0<=a1<5 and 0<=b1<5 and 0<=a2<5 and 0<=b2<5
    post: _
    """
    t1 = mk(s1,a1,b1); t2 = mk(s2,a2,b2)
    r = unify(t1, t2, {})
    with NoTracing():
        CNT[0] += 1
        u, implied, implies = oracle(t1, t2, r)
    return (r is not None) == u and implied and implies
