"""C09 probe: one iteration of BackwardAnalysis.run (sliced from the current source) from an arbitrary state; one variable."""
import ast, inspect, textwrap, sys, os
from guppylang_internals.cfg import analysis as A
from guppylang_internals.cfg.bb import BB, VariableStats

MUT = os.environ.get("MUT", "")
src = textwrap.dedent(inspect.getsource(A.BackwardAnalysis.run))
if MUT == "succ":   src = src.replace("queue.update(bb.predecessors)", "queue.update(bb.successors)")
if MUT == "noeq":   src = src.replace("if not self.eq(vals_before[bb], val_before):", "if self.eq(vals_before[bb], val_before):")
fn = ast.parse(src).body[0]
loop = next(n for n in fn.body if isinstance(n, ast.While))
body = [s for s in loop.body if not (isinstance(s, ast.Assign) and ast.unparse(s.value) == "queue.pop()")]
assert len(body) == len(loop.body) - 1
step_fn = ast.FunctionDef(name="step", args=ast.arguments(posonlyargs=[], args=[ast.arg(arg=a) for a in ("self", "queue", "vals_before", "bb")], kwonlyargs=[], kw_defaults=[], defaults=[]), body=body, decorator_list=[], type_params=[])
ns = {}
exec(compile(ast.fix_missing_locations(ast.Module(body=[step_fn], type_ignores=[])), "<step>", "exec"), ns)
step = ns["step"]

NSUCC = int(os.environ.get("NSUCC", "2")); SELF = os.environ.get("SELF", "0") == "1"; DUMMY = os.environ.get("DUMMY", "0") == "1"; INCL = os.environ.get("INCL", "1") == "1"

def vc(u: bool, a: bool, b: bool, s0: bool, s1: bool, sd: bool, S0: bool, S1: bool, Sd: bool, inq: bool) -> bool:
    """
    post: _
    """
    bb = BB(0, None); succs = [BB(1 + i, None) for i in range(NSUCC)]; pred = BB(9, None); dsucc = BB(8, None)
    bb.predecessors = [pred]; pred.successors = [bb]
    for s in succs: bb.successors.append(s); s.predecessors.append(bb)
    if SELF: bb.successors.append(bb); bb.predecessors.append(bb)
    if DUMMY: bb.dummy_successors.append(dsucc); dsucc.dummy_predecessors.append(bb)
    allbbs = [bb, *succs, pred, dsucc]
    stats = {x: VariableStats() for x in allbbs}
    stats[bb] = VariableStats(assigned={"x": None} if a else {}, used={"x": None} if u else {})
    an = A.LivenessAnalysis(stats, initial={}, include_unreachable=INCL)
    vals = {x: {} for x in allbbs}
    if b: vals[bb] = {"x": bb}
    sv = [s0, s1]; SV = [S0, S1]
    for i, s in enumerate(succs):
        if sv[i]: vals[s] = {"x": s}
    if sd: vals[dsucc] = {"x": dsucc}
    eff = list(bb.successors) + (list(bb.dummy_successors) if INCL else [])
    def live_in(outs): return u or (any(outs) and not a)
    Sof = {id(s): SV[i] for i, s in enumerate(succs)}; Sof[id(dsucc)] = Sd
    # S[bb]: least value satisfying the equation at bb given S at the other successors
    others = [Sof[id(s)] for s in eff if s is not bb]
    Sbb = live_in(others)            # self-loop adds nothing new for a single bit (x live via itself only if already live)
    Sof[id(bb)] = Sbb
    cur = {id(x): ("x" in vals[x]) for x in allbbs}
    for x in [bb, *[s for s in eff if s is not bb]]:
        if cur[id(x)] and not Sof[id(x)]: return True       # invariant vals ⊑ S not met: vacuous instance
    queue = {pred} if inq else set()
    old = cur[id(bb)]
    step(an, queue, vals, bb)
    new = "x" in vals[bb]
    exp = live_in([ (old if s is bb else cur[id(s)]) for s in eff ])
    ok = (new == exp) and (not new or Sbb)
    if new != old: ok = ok and all(p in queue for p in bb.predecessors)
    return ok
