"""Probe E5: interpret the *checked* CFG produced by /repo's front end, leaves = HUGR-op semantics of the live bindings."""
import ast, sys, os
sys.path.insert(0, os.path.dirname(os.path.abspath(__file__))); import shim
import guppylang
from hugr import tys as ht
from guppylang_internals.engine import ENGINE, DEF_STORE
from guppylang_internals.nodes import (GlobalCall, PlaceNode, TupleUnpack, LocalCall, GenericParamValue, GlobalName, PanicExpr,
    FieldAccessAndDrop, TupleAccessAndDrop, TypeApply, PartialApply)
from guppylang_internals.checker.core import Variable, FieldAccess, TupleAccess, SubscriptAccess
from guppylang_internals.definition.custom import RawCustomFunctionDef, OpCompiler, BoolOpCompiler, NoopCompiler
from guppylang_internals.definition.function import RawFunctionDef, CheckedFunctionDef
from guppylang_internals.definition.declaration import RawFunctionDecl
from guppylang_internals.tys.ty import StructType, TupleType, InputFlags

M = 1 << 64; H = 1 << 63
def s64(v): return ((v + H) % M) - H
def u64(v): return v % M
class Panic(Exception): pass
class Fuel(Exception): pass

# ---- HUGR op semantics on Python ints (values kept as signed int64 for `int`, unsigned for nat: we store raw 64-bit pattern as signed)
def _idivmod_s(n, m):
    m = u64(m)
    if m == 0: raise Panic("div by zero")
    return s64(n // m), s64(n % m)
OPS = {
 "arithmetic.int.iadd": lambda a, b: s64(a + b), "arithmetic.int.isub": lambda a, b: s64(a - b),
 "arithmetic.int.imul": lambda a, b: s64(a * b), "arithmetic.int.ineg": lambda a: s64(-a),
 "arithmetic.int.iabs": lambda a: s64(abs(a)),
 "arithmetic.int.idiv_s": lambda a, b: _idivmod_s(a, b)[0], "arithmetic.int.imod_s": lambda a, b: _idivmod_s(a, b)[1],
 "arithmetic.int.ieq": lambda a, b: a == b, "arithmetic.int.ine": lambda a, b: a != b,
 "arithmetic.int.ilt_s": lambda a, b: a < b, "arithmetic.int.ile_s": lambda a, b: a <= b,
 "arithmetic.int.igt_s": lambda a, b: a > b, "arithmetic.int.ige_s": lambda a, b: a >= b,
 "tket.bool.eq": lambda a, b: a == b, "tket.bool.and": lambda a, b: a and b, "tket.bool.or": lambda a, b: a or b,
 "tket.bool.xor": lambda a, b: a != b, "tket.bool.not": lambda a: not a,
}
class Struct:
    def __init__(self, ty, vals): self.ty = ty; self.f = vals
class Opt:
    def __init__(self, v): self.v = v

def op_name(defn):
    cc = defn.call_compiler
    o = cc.op(ht.FunctionType([], []), [], None)
    return o.op_def().qualified_name()

class Interp:
    def __init__(self, opaque, fuel=400):
        self.opaque = opaque   # callback(name, args) -> value, for declared functions / result
        self.fuel = fuel
    # --- functions
    def call_def(self, def_id, args, type_args):
        raw = DEF_STORE.raw_defs[def_id]
        from guppylang_internals.definition.custom import CustomFunctionDef
        if isinstance(raw, CustomFunctionDef) and type(raw.call_compiler).__name__ == "ConstructorCompiler":
            return Struct(None, list(args))
        if isinstance(raw, RawCustomFunctionDef):
            cc = raw.call_compiler
            cn = type(cc).__name__
            if isinstance(cc, (OpCompiler, BoolOpCompiler)): return OPS[op_name(raw)](*args)
            if isinstance(cc, NoopCompiler): return args[0]
            if cn == "OptionConstructor": return Opt((args[0],)) if cc.tag == 1 else Opt(None)
            if cn == "OptionTestCompiler": return (args[0].v is not None) == (cc.tag == 1)
            if cn == "OptionUnwrapCompiler":
                if args[0].v is None: raise Panic("unwrap")
                return args[0].v[0]
            if cn == "OptionUnwrapNothingCompiler":
                if args[0].v is not None: raise Panic("unwrap_nothing")
                return None
            raise NotImplementedError(f"custom {raw.name} {cn}")
        if isinstance(raw, RawFunctionDecl):
            return self.opaque(raw.name, tuple(args))
        chk = ENGINE.checked.get(def_id)
        if isinstance(chk, CheckedFunctionDef):
            return self.run_cfg(chk.cfg, [inp.name for inp in chk.ty.inputs] if chk.ty.input_names else [], args)
        # struct constructors and other generated defs
        tn = type(chk).__name__ if chk is not None else type(raw).__name__
        if "Constructor" in tn or "constructor" in getattr(raw, "description", ""):
            return Struct(None, list(args))
        raise NotImplementedError(f"def {raw.name} {type(raw).__name__} checked={tn}")
    # --- places
    def read(self, env, place):
        if isinstance(place, Variable): return env[place.name]
        if isinstance(place, FieldAccess):
            s = self.read(env, place.parent); idx = [f.name for f in place.parent.ty.fields].index(place.field.name); return s.f[idx]
        if isinstance(place, TupleAccess): return self.read(env, place.parent)[place.index]
        raise NotImplementedError(type(place).__name__)
    def write(self, env, place, val):
        if isinstance(place, Variable): env[place.name] = val; return
        if isinstance(place, FieldAccess):
            s = self.read(env, place.parent); idx = [f.name for f in place.parent.ty.fields].index(place.field.name)
            vals = list(s.f); vals[idx] = val; self.write(env, place.parent, Struct(s.ty, vals)); return
        if isinstance(place, TupleAccess):
            t = list(self.read(env, place.parent)); t[place.index] = val; self.write(env, place.parent, tuple(t)); return
        raise NotImplementedError(type(place).__name__)
    # --- expressions
    def ev(self, env, n):
        if isinstance(n, PlaceNode): return self.read(env, n.place)
        if isinstance(n, ast.Constant): return n.value
        if isinstance(n, ast.Tuple): return tuple(self.ev(env, e) for e in n.elts)
        if isinstance(n, GlobalCall):
            args = [self.ev(env, a) for a in n.args]
            return self.call_def(n.def_id, args, n.type_args)
        if isinstance(n, ast.UnaryOp) and isinstance(n.op, ast.Not): return not self.ev(env, n.operand)
        raise NotImplementedError(type(n).__name__ + " " + ast.dump(n)[:200])
    def assign(self, env, tgt, val):
        if isinstance(tgt, PlaceNode): self.write(env, tgt.place, val); return
        if isinstance(tgt, TupleUnpack):
            p = tgt.pattern; assert p.starred is None
            for t, v in zip(p.left, val, strict=True): self.assign(env, t, v)
            return
        raise NotImplementedError(type(tgt).__name__)
    def run_cfg(self, cfg, names, args):
        env = dict(zip(names, args, strict=True)) if names else {}
        if not names:
            env = {v.name: a for v, a in zip(cfg.entry_bb.sig.input_row, args, strict=True)}
        bb = cfg.entry_bb; ret = None
        while True:
            self.fuel -= 1
            if self.fuel < 0: raise Fuel()
            for s in bb.statements:
                if isinstance(s, ast.Assign): self.assign(env, s.targets[0], self.ev(env, s.value))
                elif isinstance(s, ast.Expr): self.ev(env, s.value)
                elif isinstance(s, ast.Return): ret = self.ev(env, s.value) if s.value is not None else None
                else: raise NotImplementedError(type(s).__name__)
            if bb is cfg.exit_bb or not bb.successors: return ret
            if len(bb.successors) > 1:
                bb = bb.successors[1] if self.ev(env, bb.branch_pred) else bb.successors[0]
            else:
                bb = bb.successors[0]
