"""C21 probe: which instance method does a comptime operator reach, compared with the name the operator table prescribes."""
import sys, os, operator
sys.path.insert(0, os.path.dirname(os.path.abspath(__file__))); import shim
import guppylang
import guppylang_internals.tracing.object as O
import guppylang_internals.tracing.unpacking as U
import guppylang_internals.tracing.state as S
from guppylang_internals.checker.expr_checker import binary_table
import ast

class FakeState:
    class dfg: builder = None
    node = None; ctx = None
O.get_tracing_state = lambda: FakeState
S.get_tracing_state = lambda: FakeState
U.guppy_object_from_py = lambda v, *a, **k: v if isinstance(v, Probe) else Probe("const")

class Probe(O.DunderMixin):
    LOG = []; FAIL = set()
    def __init__(self, tag): self.tag = tag; self._ty = tag
    def __getattr__(self, name):
        def call(*xs):
            Probe.LOG.append((self.tag, name, tuple(getattr(x, "tag", x) for x in xs)))
            if (self.tag, name) in Probe.FAIL: raise TypeError("does not type check")
            return "ok"
        return call
    def _get_method(self, name): return self.__getattr__(name)

OPS = [(ast.Add, operator.add), (ast.Sub, operator.sub), (ast.Mult, operator.mul), (ast.FloorDiv, operator.floordiv), (ast.Mod, operator.mod),
       (ast.Pow, operator.pow), (ast.LShift, operator.lshift), (ast.RShift, operator.rshift), (ast.BitOr, operator.or_), (ast.BitXor, operator.xor),
       (ast.BitAnd, operator.and_), (ast.Div, operator.truediv)]

def dispatch(k: int, traced_left: bool, first_fails: bool) -> bool:
    """
    pre: 0 <= k < 12
    post: _
    """
    node, fn = OPS[k]
    lop, rop, _ = binary_table[node]
    Probe.LOG = []; Probe.FAIL = set()
    x = Probe("x")
    if traced_left:
        # x <op> 2 : regular Guppy tries x.lop(2) then const.rop(x)
        if first_fails: Probe.FAIL = {("x", lop)}
        try: fn(x, 2)
        except Exception: pass
        exp = [("x", lop, ("const",))] + ([("const", rop, ("x",))] if first_fails else [])
    else:
        # 2 <op> x : Python calls int.__op__ -> NotImplemented -> x.__rop__(2); regular Guppy: const.lop(x) then x.rop(const)
        if first_fails: Probe.FAIL = {("x", rop)}
        try: fn(2, x)
        except Exception: pass
        exp_first = ("x", rop, ("const",))
        return len(Probe.LOG) >= 1 and Probe.LOG[0] == exp_first
    return Probe.LOG == exp
