import sys, os; sys.path.insert(0, os.path.dirname(os.path.abspath(__file__))); import shim
import guppylang
from hugr import tys as ht
from guppylang_internals.engine import DEF_STORE
from guppylang_internals.tys.builtin import int_type_def, nat_type_def, float_type_def, bool_type_def
from collections import Counter
ops = Counter(); kinds = Counter()
for tdef in (int_type_def, nat_type_def, float_type_def, bool_type_def):
    for name, did in sorted(DEF_STORE.impls[tdef.id].items()):
        d = DEF_STORE.raw_defs[did]
        cc = getattr(d, "call_compiler", None); ck = getattr(d, "call_checker", None)
        desc = type(d).__name__
        if cc is not None:
            desc += "/" + type(cc).__name__
            op = getattr(cc, "op", None)
            if op is not None:
                try:
                    o = op(ht.FunctionType([], []), [], None); nm = o.op_def().qualified_name() if hasattr(o, "op_def") else type(o).__name__ + ":" + getattr(o, "op_name", "?")
                except Exception as e: nm = "ERR " + repr(e)[:60]
                desc += "=" + nm; ops[nm] += 1
        if ck is not None and type(ck).__name__ != "DefaultCallChecker": desc += " chk=" + type(ck).__name__
        kinds[desc.split("=")[0]] += 1
        print(f"{tdef.name:6s}{name:16s}{desc}")
print(sorted(ops)); print(kinds)
