import z3, time
W=64
a,b = z3.BitVecs("a b", W)
def S(x): return z3.BV2Int(x, is_signed=True)
def U(x): return z3.BV2Int(x, is_signed=False)
def wrap_s(n):  # Int -> BV64 (two's complement)
    return z3.Int2BV(n, W)
# Python semantics as math over Int
py_floordiv = lambda x,y: S(x) / S(y)   # z3 Int div is Euclidean-ish! careful
# z3 Int "div": for y>0 floor; for y<0 ceil  (x = y*q + r, 0<=r<|y|). Python floor: 
def floor_div(x, y):
    q = x / y
    r = x % y   # 0 <= r < |y|
    return z3.If(z3.And(y < 0, r != 0), q - 1 + 0*0 , q)  # for y<0: z3 q = ceil(x/y) when r!=0 ... verify by sampling
# HUGR idiv_s: n signed, m UNSIGNED -> q = floor(n/m)
hugr_idiv_s = lambda x,y: wrap_s(S(x) / U(y))
def check(name, phi, timeout=60000):
    s = z3.Solver(); s.set("timeout", timeout); s.add(phi)
    t=time.time(); r = s.check(); dt=time.time()-t
    print(name, r, f"{dt:.2f}s", s.model() if str(r)=="sat" else "")
# 1. differs somewhere (b != 0)
check("idiv_s vs py // (any b!=0)", z3.And(b != 0, hugr_idiv_s(a,b) != wrap_s(floor_div(S(a), S(b)))))
# 2. equal for b > 0
check("idiv_s vs py // (b>0)", z3.And(S(b) > 0, hugr_idiv_s(a,b) != wrap_s(floor_div(S(a), S(b)))))
# shifts in BV
s_ = z3.BitVec("s", W)
check("ishr vs py >> (0<=s<64)", z3.And(z3.ULT(s_, 64), z3.LShR(a, s_) != (a >> s_)))
check("ishr vs py >> (a>=0)", z3.And(z3.ULT(s_, 64), a >= 0, z3.LShR(a, s_) != (a >> s_)))
# mod
hugr_imod_s = lambda x,y: wrap_s(S(x) % U(y))
def py_mod(x,y):
    r = x % y
    return z3.If(z3.And(y < 0, r != 0), r + y, r)
check("imod_s vs py % (b>0)", z3.And(S(b) > 0, hugr_imod_s(a,b) != wrap_s(py_mod(S(a), S(b)))))
check("imod_s vs py % (b!=0)", z3.And(b != 0, hugr_imod_s(a,b) != wrap_s(py_mod(S(a), S(b)))))
# mul wrap: BV mul vs Int mul wrap
check("imul", (a*b) != wrap_s(S(a)*S(b)), 60000)
# float conversion
fa = z3.fpSignedToFP(z3.RNE(), a, z3.Float64())
fu = z3.fpUnsignedToFP(z3.RNE(), a, z3.Float64())
check("convert_s vs convert_u differ", fa != fu)
