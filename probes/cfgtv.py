import sys, ast, textwrap, inspect
sys.path.insert(0, __import__("os").path.dirname(__import__("os").path.abspath(__file__))); import shim
from guppylang_internals.cfg.builder import CFGBuilder
from guppylang_internals.checker.core import Globals
from guppylang_internals.ast_util import annotate_location

SRC = textwrap.dedent('''
def prog(x, y):
    s = 0
    while s < x and s < 4:
        if f(s) < y < g(s):
            s += 2
            continue
        elif s > 5 or not h(y):
            break
        s += 1
    return s if s > 0 else -s
''')

class Rec:
    def __init__(self, rets):
        self.rets = rets; self.trace = []
    def call(self, name):
        def fn(*args):
            i = len(self.trace)
            self.trace.append((name, args))
            return self.rets[i] if i < len(self.rets) else 0
        return fn
    def env(self):
        return {n: self.call(n) for n in ("f", "g", "h")}

_native = {}
exec(compile("def _mk(f, g, h):\n" + textwrap.indent(SRC, "    ") + "\n    return prog\n", "<prog>", "exec"), _native)

def build():
    tree = ast.parse(SRC); fn = tree.body[0]
    annotate_location(fn, SRC, "<prog>", 1)
    cfg = CFGBuilder().build(fn.body, False, Globals(inspect.currentframe()))
    code = {}
    for bb in cfg.bbs:
        stmts = []
        for s in bb.statements:
            if isinstance(s, ast.Return):
                s = ast.Assign(targets=[ast.Name(id="%ret", ctx=ast.Store())], value=s.value)
            stmts.append(s)
        for s_ in stmts + ([bb.branch_pred] if bb.branch_pred is not None else []):
            for n in ast.walk(s_):
                if isinstance(getattr(n, "ctx", None), type):
                    n.ctx = n.ctx()
        mod = ast.fix_missing_locations(ast.Module(body=stmts, type_ignores=[]))
        pred = compile(ast.fix_missing_locations(ast.Expression(body=bb.branch_pred)), "<bb>", "eval") if bb.branch_pred is not None else None
        code[bb] = (compile(mod, "<bb>", "exec"), pred)
    return cfg, code
CFG, CODE = build()

def run_cfg(x, y, rec, fuel=60):
    env = {"f": rec.call("f"), "g": rec.call("g"), "h": rec.call("h"), "x": x, "y": y}
    bb = CFG.entry_bb
    while bb is not CFG.exit_bb:
        fuel -= 1
        if fuel < 0: return ("fuel",)
        body, pred = CODE[bb]
        exec(body, env)
        if len(bb.successors) > 1:
            bb = bb.successors[1] if eval(pred, env) else bb.successors[0]
        else:
            bb = bb.successors[0]
    return ("ret", env.get("%ret"))

def run_native(x, y, rec):
    fn = _native["_mk"](rec.call("f"), rec.call("g"), rec.call("h"))
    return ("ret", fn(x, y))

def equiv(x: int, y: int, r0: int, r1: int, r2: int, r3: int, r4: int, r5: int) -> bool:
    """
    pre: -8 <= x <= 8
    post: _
    """
    rets = [r0, r1, r2, r3, r4, r5]
    ra, rb = Rec(rets), Rec(rets)
    a = run_native(x, y, ra)
    b = run_cfg(x, y, rb)
    return a == b and ra.trace == rb.trace
