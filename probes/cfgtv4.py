import sys, ast, textwrap, inspect
sys.path.insert(0, __import__("os").path.dirname(__import__("os").path.abspath(__file__))); import shim
from guppylang_internals.cfg.builder import CFGBuilder
from guppylang_internals.checker.core import Globals
from guppylang_internals.ast_util import annotate_location
from guppylang_internals.nodes import MakeIter, IterNext, NestedFunctionDef

SRC = textwrap.dedent('''
def prog(x, y):
    s = 0
    for i in range(x):
        if i == y:
            continue
        for j in range(i):
            s += j
            if s > 7:
                break
        else:
            s += 100
        s += i
    return (s, i) if x > 0 else (s, -1)
''')
_native = {}
exec(compile(SRC, "<prog>", "exec"), _native)

class Opt:
    def __init__(self, v): self.v = v
    def is_some(self): return self.v is not None
    def unwrap(self): return self.v[0]
    def unwrap_nothing(self): assert self.v is None
class It:
    def __init__(self, it): self.it = it
def make_iter(v): return It(iter(v))
def iter_next(it):
    try:
        return Opt(((next(it.it), it),))
    except StopIteration:
        return Opt(None)

class Lower(ast.NodeTransformer):
    def visit_MakeIter(self, n): return ast.Call(func=ast.Name(id="__make_iter", ctx=ast.Load()), args=[self.visit(n.value)], keywords=[])
    def visit_IterNext(self, n): return ast.Call(func=ast.Name(id="__iter_next", ctx=ast.Load()), args=[self.visit(n.value)], keywords=[])
    def generic_visit(self, n):
        n = super().generic_visit(n)
        if isinstance(getattr(n, "ctx", None), type): n.ctx = n.ctx()
        return n

def build():
    tree = ast.parse(SRC); fn = tree.body[0]
    annotate_location(fn, SRC, "<prog>", 1)
    cfg = CFGBuilder().build(fn.body, False, Globals(inspect.currentframe()))
    code = {}
    for bb in cfg.bbs:
        stmts = []
        for s in bb.statements:
            s = Lower().visit(s)
            if isinstance(s, ast.Return):
                s = ast.Assign(targets=[ast.Name(id="%ret", ctx=ast.Store())], value=s.value)
            stmts.append(s)
        mod = ast.fix_missing_locations(ast.Module(body=stmts, type_ignores=[]))
        pred = compile(ast.fix_missing_locations(ast.Expression(body=Lower().visit(bb.branch_pred))), "<bb>", "eval") if bb.branch_pred is not None else None
        code[bb] = (compile(mod, "<bb>", "exec"), pred)
    return cfg, code
CFG, CODE = build()

def run_cfg(x, y, fuel=200):
    env = {"x": x, "y": y, "__make_iter": make_iter, "__iter_next": iter_next, "range": range}
    bb = CFG.entry_bb
    while bb is not CFG.exit_bb:
        fuel -= 1
        if fuel < 0: return ("fuel",)
        body, pred = CODE[bb]
        exec(body, env)
        bb = (bb.successors[1] if eval(pred, env) else bb.successors[0]) if len(bb.successors) > 1 else bb.successors[0]
    return ("ret", env.get("%ret"))

def equiv(x: int, y: int) -> bool:
    """
    pre: -2 <= x <= 5
    post: _
    """
    try:
        a = ("ret", _native["prog"](x, y))
    except UnboundLocalError:
        a = ("unbound",)
    try:
        b = run_cfg(x, y)
    except KeyError:
        b = ("unbound",)
    except NameError:
        b = ("unbound",)
    return a == b
