from guppylang_internals.span import Loc, Span

def _mk(l1:int,c1:int,l2:int,c2:int) -> Span:
    return Span(Loc("f", l1, c1), Loc("f", l2, c2))

def contains_spec(al1:int,ac1:int,al2:int,ac2:int, bl1:int,bc1:int,bl2:int,bc2:int) -> bool:
    """
    pre: (al1,ac1) <= (al2,ac2) and (bl1,bc1) <= (bl2,bc2)
    pre: min(al1,ac1,al2,ac2,bl1,bc1,bl2,bc2) >= 0
    post: _ == ((bl1,bc1) <= (al1,ac1) and (al2,ac2) <= (bl2,bc2))
    """
    a = _mk(al1,ac1,al2,ac2); b = _mk(bl1,bc1,bl2,bc2)
    return a in b
