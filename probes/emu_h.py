import sys
sys.path.insert(0, __import__("os").path.dirname(__import__("os").path.abspath(__file__))); import shim
from guppylang.emulator.instance import EmulatorInstance
import guppylang.emulator.instance as M
assert M.__file__.startswith("/repo"), M.__file__

class FakeSelene:
    def __init__(self): self.calls = []
    def run_shots(self, **kw):
        sim = kw["simulator"]
        self.calls.append((type(sim).__name__, getattr(sim, "random_seed", None), kw["random_seed"], kw["n_shots"], kw["shot_offset"]))
        return iter(())

def eff(inst):
    fs = FakeSelene()
    object.__setattr__(inst, "_instance", fs)
    inst.run()
    name, simseed, runseed, shots, off = fs.calls[0]
    return (name, simseed if simseed is not None else runseed, shots, off)

def immut(ops: list[int], vals: list[int]) -> bool:
    """
    pre: 1 <= len(ops) <= 3 and len(vals) == len(ops) and all(0 <= o < 5 for o in ops) and all(0 <= v < 3 for v in vals)
    post: _
    """
    base = EmulatorInstance(_instance=FakeSelene(), _n_qubits=2).with_seed(7)
    insts = [base]; snaps = [eff(base)]
    for o, v in zip(ops, vals):
        parent = insts[v % len(insts)]
        if o == 0: new = parent.with_seed(v)
        elif o == 1: new = parent.with_shots(v + 1)
        elif o == 2: new = parent.stabilizer_sim()
        elif o == 3: new = parent.with_shot_offset(v)
        else: new = parent.statevector_sim()
        insts.append(new); snaps.append(eff(new))
        for i, s in zip(insts, snaps):
            if eff(i) != s: return False
    return True
