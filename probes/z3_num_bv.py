import z3, time
def run(W, timeout=60000):
    a,b = z3.BitVecs("a b", W)
    zero = z3.BitVecVal(0, W); one = z3.BitVecVal(1, W)
    # Python floor division / modulo on signed W-bit (result wrapped)
    def py_floordiv(x,y):
        q = (x / y); r = z3.SRem(x,y)   # trunc
        return z3.If(z3.And(r != 0, (r < 0) != (y < 0)), q - 1, q)
    def py_mod(x,y):
        r = z3.SRem(x,y)
        return z3.If(z3.And(r != 0, (r < 0) != (y < 0)), r + y, r)
    # HUGR idivmod_s: n signed, m unsigned: n = q*m + r, 0<=r<m ; computed in W+1.. use wider arithmetic to be safe
    def hugr_idivmod_s(n, m):
        n2 = z3.SignExt(W, n); m2 = z3.ZeroExt(W, m)   # 2W bits, m2 >= 0
        q = (n2 / m2); r = z3.SRem(n2, m2)
        q2 = z3.If(r < 0, q - 1, q); r2 = z3.If(r < 0, r + m2, r)
        return z3.Extract(W-1, 0, q2), z3.Extract(W-1, 0, r2)
    def check(name, phi):
        s = z3.Solver(); s.set("timeout", timeout); s.add(phi)
        t=time.time(); r = s.check(); dt=time.time()-t
        m = s.model() if str(r)=="sat" else None
        print(f"W={W}", name, r, f"{dt:.2f}s", {str(d): m[d].as_signed_long() for d in m} if m else "")
    q, r = hugr_idivmod_s(a, b)
    check("idiv_s != py// (b!=0)", z3.And(b != 0, q != py_floordiv(a,b)))
    check("idiv_s != py// (b>0)", z3.And(b > 0, q != py_floordiv(a,b)))
    check("imod_s != py% (b>0)", z3.And(b > 0, r != py_mod(a,b)))
for W in (8, 16, 32, 64):
    run(W)
