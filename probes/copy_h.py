import sys
sys.path.insert(0, __import__("os").path.dirname(__import__("os").path.abspath(__file__))); import shim
from hugr import tys as ht
from guppylang_internals.tys.ty import BoundTypeVar, TupleType, FunctionType, FuncInput, InputFlags, NoneType, NumericType, StructType
from guppylang_internals.tys.builtin import array_type, option_type, frozenarray_type, list_type, sized_iter_type
from guppylang_internals.tys.param import TypeParam
from guppylang_internals.tys.arg import TypeArg
from guppylang_internals.definition.struct import CheckedStructDef, StructField
from guppylang_internals.definition.common import DefId
from guppylang_internals.compiler.core import requires_drop
from guppylang_internals.tys.common import QuantifiedToHugrContext

def child(i, c, d): return BoundTypeVar(f"T{i}", i, c, d)

def step(k: int, c0: bool, d0: bool, c1: bool, d1: bool) -> bool:
    """
    pre: 0 <= k < 7
    pre: (not c0 or d0) and (not c1 or d1)
    post: _
    """
    a, b = child(0, c0, d0), child(1, c1, d1)
    params = [TypeParam(0, "T0", c0, d0), TypeParam(1, "T1", c1, d1)]
    if k == 0:   ty = TupleType([a, b]); exp_c = c0 and c1; exp_d = d0 and d1
    elif k == 1: ty = array_type(a, 3); exp_c = False; exp_d = d0
    elif k == 2: ty = option_type(a); exp_c = c0; exp_d = d0
    elif k == 3: ty = FunctionType([FuncInput(a, InputFlags.NoFlags)], b); exp_c = True; exp_d = True
    elif k == 4:
        sd = CheckedStructDef(DefId.fresh(), "S", None, [TypeParam(0, "X", False, False)], [StructField("f", BoundTypeVar("X", 0, False, False)), StructField("g", NumericType(NumericType.Kind.Int))])
        ty = StructType([TypeArg(a)], sd); exp_c = c0; exp_d = d0
    elif k == 5: ty = TupleType([option_type(a), array_type(b, 2)]); exp_c = False; exp_d = d0 and d1
    else:        ty = TupleType([]); exp_c = True; exp_d = True
    if ty.copyable != exp_c or ty.droppable != exp_d: return False
    if (ty.hugr_bound == ht.TypeBound.Copyable) != exp_c: return False
    h = ty.to_hugr(QuantifiedToHugrContext(params))
    if (h.type_bound() == ht.TypeBound.Copyable) != exp_c: return False
    if (exp_d and not exp_c) and not requires_drop(h): return False
    return True
