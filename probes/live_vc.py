import ast, inspect, textwrap, sys
from guppylang_internals.cfg import analysis as A
from guppylang_internals.cfg.bb import BB, VariableStats

# --- slice the loop body of BackwardAnalysis.run out of the current source
src = textwrap.dedent(inspect.getsource(A.BackwardAnalysis.run))
fn = ast.parse(src).body[0]
loop = next(n for n in fn.body if isinstance(n, ast.While))
body = [s for s in loop.body if not (isinstance(s, ast.Assign) and isinstance(s.value, ast.Call) and ast.unparse(s.value) == "queue.pop()")]
assert len(body) == len(loop.body) - 1
step_fn = ast.FunctionDef(name="step", args=ast.arguments(posonlyargs=[], args=[ast.arg(arg=a) for a in ("self", "queue", "vals_before", "bb")], kwonlyargs=[], kw_defaults=[], defaults=[]), body=body, decorator_list=[], type_params=[])
ns = {}
exec(compile(ast.fix_missing_locations(ast.Module(body=[step_fn], type_ignores=[])), "<step>", "exec"), ns)
step = ns["step"]

VARS = ["x", "y"]
def mkset(bits):  # bits: list of bools -> dict var->marker
    return {v: None for v, b in zip(VARS, bits) if b}

def vc(nsucc: int, selfloop: bool, dummy: bool, incl: bool,
       u0: bool, u1: bool, a0: bool, a1: bool,
       b0: bool, b1: bool, s00: bool, s01: bool, s10: bool, s11: bool,
       S00: bool, S01: bool, S10: bool, S11: bool, inq: bool) -> bool:
    """
    pre: 0 <= nsucc <= 2
    post: _
    """
    cfg = None
    bb = BB(0, cfg); succs = [BB(1 + i, cfg) for i in range(nsucc)]
    pred = BB(9, cfg)
    bb.predecessors = [pred]; pred.successors = [bb]
    for s in succs:
        bb.successors.append(s); s.predecessors.append(bb)
    if selfloop:
        bb.successors.append(bb); bb.predecessors.append(bb)
    dsucc = BB(8, cfg)
    if dummy:
        bb.dummy_successors.append(dsucc); dsucc.dummy_predecessors.append(bb)
    allbbs = [bb, *succs, pred, dsucc]
    stats = {b: VariableStats() for b in allbbs}
    stats[bb] = VariableStats(assigned=mkset([a0, a1]), used=mkset([u0, u1]))
    an = A.LivenessAnalysis(stats, initial={}, include_unreachable=incl)
    vals = {b: {} for b in allbbs}
    vals[bb] = {v: bb for v in mkset([b0, b1])}
    svals = [[s00, s01], [s10, s11]]
    Ssol = {b: set() for b in allbbs}
    Sbits = [[S00, S01], [S10, S11]]
    for i, s in enumerate(succs):
        vals[s] = {v: s for v in mkset(svals[i])}
        Ssol[s] = set(mkset(Sbits[i]))
    # dummy successor value: reuse svals[1] when nsucc < 2
    vals[dsucc] = {v: dsucc for v in mkset(svals[1])} if nsucc < 2 else {}
    Ssol[dsucc] = set(mkset(Sbits[1])) if nsucc < 2 else set()
    # reference transfer function (spec): live_in = use ∪ (∪succ live_in \ def)
    def spec_in(outs):
        o = set().union(*outs) if outs else set()
        return set(mkset([u0, u1])) | (o - set(mkset([a0, a1])))
    eff_succs = list(bb.successors) + (list(bb.dummy_successors) if incl else [])
    # S is a solution at bb
    Ssol[bb] = spec_in([Ssol[s] if s is not bb else None for s in eff_succs if s is not bb] ) if not selfloop else None
    if selfloop:
        # need S[bb] = spec_in(S[succs] ∪ S[bb]) : least such, computed by iterating twice
        cur = set()
        for _ in range(3):
            cur = spec_in([Ssol[s] for s in eff_succs if s is not bb] + [cur])
        Ssol[bb] = cur
    # invariant: vals ⊑ S
    for b in [bb, *eff_succs]:
        if not set(vals[b].keys()) <= Ssol[b]:
            return True
    queue = set([pred] if inq else [])
    old = set(vals[bb].keys())
    step(an, queue, vals, bb)
    new = set(vals[bb].keys())
    exp = spec_in([set(vals[s].keys()) if s is not bb else old for s in eff_succs])
    ok = new == exp and new <= Ssol[bb]
    if new != old:
        ok = ok and all(p in queue for p in bb.predecessors)
    return ok
