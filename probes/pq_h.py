"""Probe: re-execute the Guppy source of PriorityQueue.push/pop from /repo under Python models."""
import ast, textwrap
SRC = open("/repo/guppylang/src/guppylang/std/collections/priority_queue.py").read()
tree = ast.parse(SRC)
cls = next(n for n in tree.body if isinstance(n, ast.ClassDef) and n.name == "PriorityQueue")
K = 4  # capacity bound

class Panic(Exception): pass
def panic(msg, *a): raise Panic(msg)

class Opt:
    __slots__ = ("v",)
    def __init__(self, v=None): self.v = v           # None == nothing, else 1-tuple payload
    def is_some(self): return self.v is not None
    def is_nothing(self): return self.v is None
    def unwrap(self):
        if self.v is None: raise Panic("unwrap of nothing")
        r = self.v[0]; return r
    def unwrap_nothing(self):
        if self.v is not None: raise Panic("unwrap_nothing of some")
    def swap(self, other):
        old = Opt(self.v); self.v = other.v; return old
    def take(self): return self.swap(Opt(None))
def some(x): return Opt((x,))
def nothing(): return Opt(None)

class Arr:
    def __init__(self, elems): self.e = elems
    def __getitem__(self, i):
        if not (0 <= i < len(self.e)): raise Panic("index out of bounds")
        return self.e[i]

class PriorityQueue:
    def __init__(self, buf, size): self.buf = buf; self.size = size

ns = {"panic": panic, "some": some, "nothing": nothing, "PriorityQueue": PriorityQueue, "MAX_SIZE": K, "len": lambda s: s.size}
for fn in cls.body:
    if isinstance(fn, ast.FunctionDef) and fn.name in ("push", "pop", "peek"):
        fn = ast.FunctionDef(name=fn.name, args=ast.arguments(posonlyargs=[], args=[ast.arg(arg=a.arg) for a in fn.args.args], kwonlyargs=[], kw_defaults=[], defaults=[]), body=fn.body, decorator_list=[], type_params=[])
        mod = ast.fix_missing_locations(ast.Module(body=[fn], type_ignores=[]))
        exec(compile(mod, "<pq>", "exec"), ns)
push, pop = ns["push"], ns["pop"]

def mkq(size, p0, p1, p2, p3):
    ps = [p0, p1, p2, p3]
    return PriorityQueue(Arr([some((ps[i], 100 + i)) if i < size else nothing() for i in range(K)]), size)

def heap_ok(q):
    for i in range(K):
        if (i < q.size) != q.buf.e[i].is_some(): return False
    for i in range(1, q.size):
        if q.buf.e[(i - 1) // 2].v[0][0] > q.buf.e[i].v[0][0]: return False
    return True

def contents(q): return sorted(q.buf.e[i].v[0] for i in range(q.size))

def push_step(size: int, p0: int, p1: int, p2: int, p3: int, prio: int) -> bool:
    """
    pre: 0 <= size < 4
    post: _
    """
    q = mkq(size, p0, p1, p2, p3)
    if not heap_ok(q): return True
    before = contents(q)
    q2 = push(q, 999, prio)
    return heap_ok(q2) and q2.size == size + 1 and contents(q2) == sorted(before + [(prio, 999)])

def pop_step(size: int, p0: int, p1: int, p2: int, p3: int) -> bool:
    """
    pre: 1 <= size <= 4
    post: _
    """
    q = mkq(size, p0, p1, p2, p3)
    if not heap_ok(q): return True
    before = contents(q)
    pr, val, q2 = pop(q)
    return heap_ok(q2) and q2.size == size - 1 and pr == before[0][0] and sorted(contents(q2) + [(pr, val)]) == before
