import sys, os; sys.path.insert(0, os.path.dirname(os.path.abspath(__file__))); import shim
from guppylang import guppy
from guppylang_internals.error import GuppyError
@guppy.declare
def c() -> bool: ...
@guppy
def two(x: int) -> int:
    if c():
        alpha = 1
        beta = 2
    else:
        alpha = 1.5
        beta = True
    return x + int(alpha) + int(beta)
try:
    two.check(); print("ACCEPTED")
except GuppyError as e:
    print(type(e.error).__name__, e.error.ident)
