import sys, os
sys.path.insert(0, os.path.dirname(os.path.abspath(__file__)))
from e5_interp import *
from guppylang import guppy
@guppy.declare
def f(x: int) -> int: ...
@guppy
def prog(x: int, y: int) -> int:
    s = 0
    t = (x, y)
    for i in range(x):
        if i % 2 == 0 and f(i) < y:
            s += i
            continue
        a, b = t
        s -= a
    return s if s > 0 else -s
prog.check()
CHK = ENGINE.checked[prog.id]
def py_prog(x, y, f):
    s = 0
    t = (x, y)
    for i in range(x):
        if i % 2 == 0 and f(i) < y:
            s += i
            continue
        a, b = t
        s -= a
    return s if s > 0 else -s
class Rec:
    def __init__(self, rets): self.rets = rets; self.trace = []
    def __call__(self, name, args):
        i = len(self.trace); self.trace.append((name, args)); return self.rets[i] if i < len(self.rets) else 0
def equiv(x: int, y: int, r0: int, r1: int, r2: int) -> bool:
    """
    pre: -3 <= x <= 4 and -1000 <= y <= 1000
    post: _
    """
    ra, rb = Rec([r0, r1, r2]), Rec([r0, r1, r2])
    a = py_prog(x, y, lambda v: ra("f", (v,)))
    b = Interp(rb).run_cfg(CHK.cfg, ["x", "y"], [x, y])
    return a == b and ra.trace == rb.trace
if __name__ == "__main__":
    print(equiv(4, 2, 1, 5, 0), equiv(3, -1, 0, 0, 0))
