import sys, os; sys.path.insert(0, os.path.dirname(os.path.abspath(__file__))); import shim
from guppylang import guppy
from guppylang.std.quantum import qubit, h, project_z, rz
from guppylang.std.angles import angle
from guppylang_internals.error import GuppyError
import guppylang
guppylang.enable_experimental_features()

@guppy
def meas_angle(q: qubit) -> angle:          # NOT unitary: projective measurement
    return angle(0.5) if project_z(q) else angle(0.0)

@guppy(unitary=True)
def in_stmt(q: qubit, r: qubit) -> None:
    project_z(r)                              # expected: rejected (baseline, statement position)

@guppy(unitary=True)
def in_cond(q: qubit, r: qubit) -> None:
    if project_z(r):                          # non-unitary call in a branch condition
        h(q)

@guppy(unitary=True)
def in_later_arg(q: qubit, r: qubit) -> None:
    rz(q, meas_angle(r))                      # non-unitary call as an argument after a qubit argument

@guppy(unitary=True)
def in_first_arg(q: qubit, r: qubit) -> None:
    x = 1
for f in (in_stmt, in_cond, in_later_arg):
    try:
        f.check(); print(f.wrapped.name, "ACCEPTED")
    except GuppyError as e:
        print(f.wrapped.name, "rejected:", type(e.error).__name__)
