import sys, os, importlib, textwrap, tempfile
sys.path.insert(0, __import__("os").path.dirname(__import__("os").path.abspath(__file__))); import shim
from guppylang_internals.error import GuppyError

PROGS = {
 "ok_branch": '''
def prog(q: qubit @owned) -> None:
    if cond():
        h(q)
    measure(q)
''',
 "leak_one_branch": '''
def prog(q: qubit @owned) -> None:
    if cond():
        measure(q)
''',
 "double_use_loop": '''
def prog(q: qubit @owned) -> None:
    while cond():
        measure(q)
''',
 "loop_realloc": '''
def prog() -> None:
    q = qubit()
    while cond():
        measure(q)
        q = qubit()
    discard(q)
''',
 "borrow_then_ret": '''
def prog(q: qubit) -> None:
    if cond():
        h(q)
    else:
        h(q)
        h(q)
''',
 "consume_borrowed": '''
def prog(q: qubit) -> None:
    if cond():
        measure(q)
''',
}
HEADER = '''
from __future__ import annotations
from guppylang import guppy
from guppylang.std.builtins import owned
from guppylang.std.quantum import qubit, h, measure, discard
@guppy.declare
def cond() -> bool: ...
'''
def real_verdict(name, src):
    d = tempfile.mkdtemp(prefix="linprobe")
    path = os.path.join(d, f"m_{name}.py")
    open(path, "w").write(HEADER + "\n@guppy" + src)
    sys.path.insert(0, d)
    try:
        m = importlib.import_module(f"m_{name}")
        try:
            m.prog.check(); return "accepted"
        except GuppyError as e:
            return type(e.error).__name__
    finally:
        sys.path.remove(d)

# ---- dynamic ownership model
class Fault(Exception): pass
class Tok:
    def __init__(self): self.alive = True
class World:
    def __init__(self, choices):
        self.choices = choices; self.i = 0; self.toks = []
    def cond(self):
        c = self.choices[self.i] if self.i < len(self.choices) else False
        self.i += 1
        if self.i > len(self.choices): raise OutOfFuel()
        return c
    def qubit(self):
        t = Tok(); self.toks.append(t); return t
    def borrow(self, t):
        if not t.alive: raise Fault("use after consume")
    def consume(self, t):
        if not t.alive: raise Fault("double consume")
        t.alive = False
class OutOfFuel(Exception): pass

import ast
def compile_model(src):
    tree = ast.parse(textwrap.dedent(src)); fn = tree.body[0]
    params = [(a.arg, ast.unparse(a.annotation)) for a in fn.args.args]
    fn.args = ast.arguments(posonlyargs=[], args=[ast.arg(arg=a) for a, _ in params], kwonlyargs=[], kw_defaults=[], defaults=[])
    fn.returns = None
    ns = {}
    exec(compile(ast.fix_missing_locations(ast.Module(body=[ast.FunctionDef(name="_mk", args=ast.arguments(posonlyargs=[], args=[ast.arg(arg=n) for n in ("cond","qubit","h","measure","discard")], kwonlyargs=[], kw_defaults=[], defaults=[]), body=[fn, ast.Return(value=ast.Name(id="prog", ctx=ast.Load()))], decorator_list=[], type_params=[])], type_ignores=[])), "<m>", "exec"), ns)
    return ns["_mk"], params

def run_model(mk, params, choices):
    w = World(choices)
    f = mk(w.cond, w.qubit, lambda q: w.borrow(q), lambda q: (w.consume(q), True)[1], lambda q: w.consume(q))
    args = []; owned_flags = []
    for _, ann in params:
        t = w.qubit(); args.append(t); owned_flags.append("owned" in ann)
    try:
        f(*args)
    except Fault as e:
        return "fault:" + str(e)
    except OutOfFuel:
        return "fuel"
    for t in w.toks:
        is_borrowed_arg = any(t is a and not o for a, o in zip(args, owned_flags))
        if is_borrowed_arg and not t.alive: return "fault: borrowed arg consumed"
        if not is_borrowed_arg and t.alive: return "fault: leak"
    return "ok"
# note: reassigning a variable holding a live token leaks it -> detected at the end as leak

VERDICT = {n: real_verdict(n, s) for n, s in PROGS.items()}
MODEL = {n: compile_model(s) for n, s in PROGS.items()}
print(VERDICT, file=sys.stderr)

def sound(pi: int, c: list[bool]) -> bool:
    """
    pre: 0 <= pi < 6 and len(c) <= 4
    post: _
    """
    name = list(PROGS)[pi]
    mk, params = MODEL[name]
    r = run_model(mk, params, c)
    if VERDICT[name] == "accepted":
        return not r.startswith("fault")
    return True

def complete_witness(pi: int, c: list[bool]) -> bool:
    """
    pre: 0 <= pi < 6 and len(c) <= 4
    post: _
    """
    # for rejected programs we WANT crosshair to find a faulting path: post is 'no fault', a counterexample is the witness
    name = list(PROGS)[pi]
    mk, params = MODEL[name]
    r = run_model(mk, params, c)
    if VERDICT[name] != "accepted" and name == "leak_one_branch":
        return not r.startswith("fault")
    return True
