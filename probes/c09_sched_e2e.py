import ast, inspect, textwrap
from guppylang_internals.cfg import analysis as A
from guppylang_internals.cfg.bb import BB, VariableStats

def rewrite(cls):
    src = textwrap.dedent(inspect.getsource(cls.run))
    fn = ast.parse(src).body[0]
    class R(ast.NodeTransformer):
        n = 0
        def visit_Call(self, node):
            self.generic_visit(node)
            if ast.unparse(node) == "queue.pop()":
                R.n += 1
                return ast.Call(func=ast.Name(id="_choose", ctx=ast.Load()), args=[ast.Name(id="queue", ctx=ast.Load())], keywords=[])
            return node
    fn = R().visit(fn); assert R.n == 1
    fn.name = "run_sched"; fn.returns = None
    for a in fn.args.args: a.annotation = None
    return fn
SCHED = {"s": [], "i": 0}
class Fuel(Exception): pass
def _choose(queue):
    i = SCHED["i"]; SCHED["i"] += 1
    if i >= len(SCHED["s"]): raise Fuel()
    elems = sorted(queue, key=lambda b: b.idx)
    e = elems[SCHED["s"][i] % len(elems)]
    queue.remove(e)
    return e
ns = {"_choose": _choose}
for cls, nm in ((A.BackwardAnalysis, "bwd"), (A.ForwardAnalysis, "fwd")):
    fn = rewrite(cls); fn.name = nm
    exec(compile(ast.fix_missing_locations(ast.Module(body=[fn], type_ignores=[])), "<run>", "exec"), ns)

def graph():
    # 0 -> 1 ; 1 -> 2,3 ; 2 -> 1 (loop) ; 3 exit
    bbs = [BB(i, None) for i in range(4)]
    def link(a, b): bbs[a].successors.append(bbs[b]); bbs[b].predecessors.append(bbs[a])
    link(0,1); link(1,3); link(1,2); link(2,1)
    for b in bbs: b.reachable = True
    return bbs

def paths_live(bbs, used, assigned, start, maxlen=8):
    # path-based: x live at start iff exists path reading x before assignment
    seen = set(); stack = [(start, 0)]
    while stack:
        b, d = stack.pop()
        if used[b.idx]: return True
        if assigned[b.idx] or d >= maxlen or (b.idx, ) in seen: continue
        seen.add((b.idx,))
        for s in b.successors: stack.append((s, d + 1))
    return False

def live_sched(u0: bool, u1: bool, u2: bool, u3: bool, a0: bool, a1: bool, a2: bool, a3: bool, sched: list[int]) -> bool:
    """
    pre: len(sched) == 12 and all(0 <= s < 4 for s in sched)
    post: _
    """
    bbs = graph(); used = [u0,u1,u2,u3]; assigned = [a0,a1,a2,a3]
    stats = {b: VariableStats(assigned={"x": None} if assigned[b.idx] else {}, used={"x": None} if used[b.idx] else {}) for b in bbs}
    an = A.LivenessAnalysis(stats, initial={}, include_unreachable=False)
    SCHED["s"] = sched; SCHED["i"] = 0
    try:
        res = ns["bwd"](an, bbs)
    except Fuel:
        return True   # outside bound (counted separately in the real harness)
    return all(("x" in res[b]) == paths_live(bbs, used, assigned, b) for b in bbs)
