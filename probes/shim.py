import tket_exts, hugr
from hugr import ext, tys as ht
def _mk_bool():
    e = ext.Extension("tket.bool", ext.Version(0,2,0))
    td = e.add_type_def(ext.TypeDef("bool", "opaque bool", [], ext.ExplicitBound(ht.TypeBound.Copyable)))
    B = ht.ExtType(td)
    def op(name, ins, outs):
        e.add_op_def(ext.OpDef(name, ext.OpDefSig(ht.FunctionType(ins, outs))))
    op("read",[B],[ht.Bool]); op("make_opaque",[ht.Bool],[B]); op("not",[B],[B])
    for n in ("eq","and","or","xor"): op(n,[B,B],[B])
    return e
_E=_mk_bool()
tket_exts.bool = lambda: _E
from hugr import val as hv
import dataclasses
_orig_init = hv.Extension.__init__
def _init(self, *a, extensions=None, **k):
    _orig_init(self, *a, **k)
hv.Extension.__init__ = _init
