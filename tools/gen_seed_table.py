#!/usr/bin/env python3
"""Regenerates the table of section 10 of DESIGN.md from seeded/*/meta.json (between the markers <!-- seeds:begin --> / <!-- seeds:end -->)."""
import glob, json, os, re
ROOT = os.path.dirname(os.path.dirname(os.path.abspath(__file__)))
rows = []
def key(d):
    n = os.path.basename(d.rstrip("/"))
    a, b = n.split("-")
    return (a, int(b))
for d in sorted(glob.glob(os.path.join(ROOT, "seeded", "*/")), key=key):
    m = json.load(open(d + "meta.json"))
    name = os.path.basename(d.rstrip("/"))
    det = m["detected_by"]
    need = m["needs_to_manifest"].replace("|", "/")
    if det is None:
        status = "**not detected** — " + (("not counted: C01's subject" if "NOT counted" in need else "outside every claim (back end)") if "BACK END" in need else ("not counted: allowed by the statement" if "NOT counted" in need else "outside the claim"))
    elif "after strengthening" in det:
        status = "detected after strengthening"
    else:
        status = "detected as built"
    rows.append(f"| {name} | {need[:230]} | {status} | {('' if det is None else det[:170]).replace('|', '/')} |")
tot = len(rows); asb = sum("as built" in r for r in rows); aft = sum("after strengthening" in r for r in rows); nd = sum("not detected" in r for r in rows)
be = sum("back end" in r for r in rows)
table = ("| seed | needs, to manifest | outcome | by which obligation |\n|---|---|---|---|\n" + "\n".join(rows) +
         f"\n\nTotals: {tot} changes (three rounds; seeds numbered 3 and 4 come from a later round than 1 and 2; C07, C11 and C19 were seeded once, after they became claimed); {asb} detected by the checks as they stood when the seed arrived, {aft} after strengthening, "
         f"{nd} not detected ({be} of them concern the back end; each is explained in its row).\n")
p = os.path.join(ROOT, "DESIGN.md")
s = open(p).read()
if "<!-- seeds:begin -->" in s:
    s = re.sub(r"<!-- seeds:begin -->.*?<!-- seeds:end -->", "<!-- seeds:begin -->\n" + table + "<!-- seeds:end -->", s, flags=re.S)
else:
    i = s.index("| seed | needs, to manifest | outcome | by which obligation |")
    j = s.index("What the misses had in common")
    s = s[:i] + "<!-- seeds:begin -->\n" + table + "<!-- seeds:end -->\n\n" + s[j:]
open(p, "w").write(s)
print(tot, asb, aft, nd)
