"""private: print the non-confirmed obligations of an evidence file"""
import json, sys
e = json.load(open(f"/verif/evidence/{sys.argv[1]}.json"))
for o in e["coverage"]["per_obligation"]:
    if o["verdict"] != "confirmed" or (len(sys.argv) > 2):
        print(o["name"], o["verdict"], o.get("wall_s"), o.get("paths"))
