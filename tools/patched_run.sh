#!/bin/bash
# tools/patched_run.sh <patch.diff> <command...> : run a command with VERIF_REPO_ROOT pointing at a scratch copy of /repo's sources carrying the patch (private self-test helper)
PATCH=$1; shift
D=$(mktemp -d /var/tmp/gl-patched-XXXXXX)
mkdir -p $D/guppylang $D/guppylang-internals $D/ev
cp -r /repo/guppylang/src $D/guppylang/; cp -r /repo/guppylang-internals/src $D/guppylang-internals/
( cd $D && patch -s -p1 < $PATCH ) || { echo "patch does not apply"; rm -rf $D; exit 2; }
VERIF_REPO_ROOT=$D VERIF_EVIDENCE_DIR=$D/ev "$@"; rc=$?
rm -rf $D; exit $rc
