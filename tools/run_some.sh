#!/bin/bash
# tools/run_some.sh <tier> <ids...> : like run_all.sh for the given checks, in the given order
cd "$(dirname "$0")/.."
TIER=$1; shift
for id in "$@"; do
  s=$(date +%s)
  out=$(./check $id --tier $TIER 2>&1); rc=$?
  e=$(date +%s)
  echo "$id exit=$rc $((e-s))s $(echo "$out" | grep -c '^KNOWN-FINDING') known  $(echo "$out" | grep '^\[' | head -1)"
  if [ $rc -ne 0 ]; then echo "$out" | grep -v '^KNOWN' | head -8; fi
done
