#!/usr/bin/env python3
"""tools/seed_store.py <PROP> <n> <caught_by|-> <needs...>   — keep a confirmed seeded change under /verif/seeded/<PROP>-<n>/"""
import json, os, shutil, sys
P, N, caught = sys.argv[1:4]
needs = " ".join(sys.argv[4:])
src = f"/tmp/seed-{P}-out"
dst = f"/verif/seeded/{P}-{int(N) + int(os.environ.get('SEED_OFFSET', '0'))}"   # SEED_OFFSET=2 for a second seeding round
os.makedirs(dst, exist_ok=True)
shutil.copy(f"{src}/patch{N}.diff", f"{dst}/patch.diff")
shutil.copy(f"{src}/demo{N}.py", f"{dst}/demo.py")
notes = open(f"{src}/NOTES.md").read() if os.path.exists(f"{src}/NOTES.md") else ""
meta = {
    "property": P,
    "origin": "fresh sub-agent given only the property text and a scratch worktree of /repo (no access to /verif)",
    "needs_to_manifest": needs,
    "confirmed_by_me": f"demo.py exits 0 on the clean scratch worktree and non-zero with patch.diff applied (tools/seed_eval.sh {P} {N}); "
                       "existing tests import the installed guppylang 1.0.4 and are unaffected by source edits",
    "ran": f"tools/seed_eval.sh {P} {N} (quick check against a scratch copy of /repo's sources carrying patch.diff; equivalent to: git -C /repo apply {dst}/patch.diff; ./check {P} --tier quick; git -C /repo checkout -- .)",
    "detected_by": caught if caught != "-" else None,
    "agent_notes": notes,
}
json.dump(meta, open(f"{dst}/meta.json", "w"), indent=1)
print("stored", dst)
