#!/usr/bin/env python3
"""Regenerate /verif/MANIFEST.json from the table below (single source of truth)."""
import json
import os

ROOT = os.path.dirname(os.path.dirname(os.path.abspath(__file__)))

TB = "CPython 3.12, crosshair-tool 0.0.110, z3 5.1; the import shim of lib/repo_env.py; harness oracles as written in harness/*.py"

# id -> (category, technique, text, note, design_ref, engine)
CHECKS = {
    "C07": ("translation_validation",
            "CrossHair/z3 symbolic execution of (CPython with reference semantics on the source || interpretation of the HUGR emitted by /repo's back end) for symbolic inputs and symbolic results of opaque calls",
            "Restricted to classical data: 7 fixed programs in which callees update borrowed int arrays in place (element stores, augmented stores, swaps, loops, branches, nested borrowing calls, two borrowed arrays, "
            "a borrowed row of an array of arrays, an array in a struct field and in a tuple element); after every call the caller must see exactly what CPython's reference semantics gives, on every path for x in [-3,4], "
            "|y| <= 1000, |opaque results| <= 1000. Qubits / gate application, everything after the emitted HUGR, and indices outside [0, n) are outside.",
            TB + "; lib/e7.py (reading of HUGR dataflow regions, CFG, Conditional, Call, the array extension ops); lib/e5.OPS", "DESIGN.md §5 C07", "E7"),
    "C19": ("translation_validation",
            "CrossHair/z3 symbolic execution of (CPython with a bounds-checking list oracle on the source || interpretation of the HUGR emitted by /repo's back end) for symbolic indices and values",
            "Restricted to classical element types: 6 fixed programs (reads, stores, augmented stores with unconstrained indices on an int array of length 3 and on a 2x3 array of arrays, indices handed to borrowing callees, "
            "full and starred unpacking, iteration, array comprehension, copy()). For every index value in the bounds (negative, in range, too large) the emitted program must touch exactly element i or panic, and unpacking / "
            "iteration / comprehension / copy must see the elements in index order. The double-borrow clause, qubit arrays and the run-time implementation of the array ops are outside.",
            TB + "; lib/e7.py incl. its reading of the HUGR array extension ops outside [0, n)", "DESIGN.md §5 C19", "E7"),
    "C11": ("model_checking",
            "solver-enumerated (CrossHair/z3) histories of check+lower calls through the real engine, checker and back end; the target's outcome after every history within the bound is compared with its first-check outcome",
            "Over a pool of 17 definitions (accepted and failing, failing call chains, shared callees, struct, generics, closures, std iterators, a never-returning and a twice-instantiated comptime-monomorphised function) every "
            "history of up to 2 (quick) / 3 (thorough) earlier check+lower calls followed by the target and a repeat of the target yields the same rendered diagnostic / the same checked CFG dump and the same emitted HUGR "
            "(structural dump) as doing the target first. Packaging, validation and emulate() stay outside.",
            TB + "; ENGINE.reset() + first use stands for a new session; outcome normalisation (addresses, counter of temporaries)", "DESIGN.md §5 C11", "E1"),
    "C13": ("model_checking",
            "solver-enumerated (CrossHair/z3) configurations through the real FunctionType.instantiate_partial / instantiate / unquantified, Instantiator, Param.with_idx / instantiate_bounds and partially_monomorphize_args / compile_variable_idx; composition laws and hand-written textual substitution as oracle",
            "Restricted to the type level: generic signatures over 3 parameters (8 kind vectors mixing type, nat-const and dependent-const parameters), all 8 first-stage masks, 2 arguments per parameter, 8 occurrence-shape vectors: partial-then-rest == all-at-once == textual substitution, "
            "remaining parameters renumbered 0..k-1 with every bound variable referring to one of them, unquantified+solution == instantiate; the monomorphisation split agrees with require_monomorphization after instantiation and compile_variable_idx is the order-preserving bijection.",
            TB + "; hand-written textual substitution for the shapes used", "DESIGN.md §5 C13", "E1"),
    "C15": ("model_checking",
            "CrossHair/z3 symbolic execution of the real overload-resolution loop with stand-in variants (symbolic success pattern), plus solver-enumerated real overload sets through the real check() compared with the direct calls of their variants",
            "Restricted: (1) OverloadedFunctionDef.check_call / synthesize_call with 1..4 variants that succeed or raise per symbolic bools: first success wins, nothing after it is consulted, rejected with OverloadNoMatchError iff all raise, hint complete; "
            "(2) 11 real overload sets x 10 argument lists x 4 positions: the variant named by the checked program is the first whose direct call the real checker accepts, and the call is rejected iff none is.",
            TB + "; 'accepts the arguments' is judged by the real checker on the direct call", "DESIGN.md §5 C15", "E1"),
    "C22": ("model_checking",
            "CrossHair/z3 symbolic execution of the real comptime ownership bookkeeping (GuppyObject creation / _use_wire with symbolic copy-drop bounds and use counts), the real frozenlist under every list method, the real struct-object setattr",
            "Kernels and programs: (0) 150 use scripts (5 value kinds x lend / consume sequences of length <= 3 x ending) as comptime functions through the real check() + lowering (the real tracer) against the statement's rule; (a) one object from an arbitrary state: a use raises iff it was used before and is not copyable; it is listed as an unused non-droppable value (what the tracer reports as a leak) iff it is not droppable and never used; "
            "(b) frozenlist: every callable attribute of list (taken from dir(list) at run time) x 11 argument tuples x lengths 0..3, plus 6 in-place statement forms: contents never change; (c) frozen struct objects reject field assignment.",
            TB + "; stand-in tracing state; copyable => droppable", "DESIGN.md §5 C22", "E1"),
    "C31": ("model_checking",
            "solver-enumerated (CrossHair/z3) exhaustive round trip of a bounded type grammar through the real str(ty) and the real type_from_ast; symbolic display-name choices for the name-uniqueness part",
            "Restricted: every first-order type of constructor depth <= 2 (quick, ~1000 types) / 3 (thorough) over numerics, bool, str, None, qubit, tuples, array, Option, frozenarray, plain and generic structs is printed by the real printer, "
            "parsed by CPython and the real type parser against a real Globals and compared with ==. Types with a tuple as the only type argument are the region of a known finding and are probed separately. "
            "Name uniqueness: generic function types whose bound/inference variables take display names from a pool with clashes.",
            TB + "; each path is one concrete type (str/ast-shaped data)", "DESIGN.md §5 C31", "E1"),
    "C08": ("translation_validation",
            "real check() verdict per program (concrete) vs. a definedness / type path oracle run by CrossHair/z3 over symbolic branch-decision vectors (one vector for definedness, two for type conflicts), with solver-produced witnesses for every rejection",
            "Restricted: the solver ranges over paths and pairs of paths; the real checker runs concretely on a generated corpus (70 quick / 1200 thorough + 20 fixed; assignments of int/bool/float/tuple and copies, generic reads, "
            "if/else, while, for, break/continue/return). Accepted => no path reaches an unassigned read and no two paths reach one read site with different types; rejected as not-defined / different-types => the solver exhibits that path / pair (replayed).",
            TB + "; lib/e8.py oracle and generator; every syntactic path feasible", "DESIGN.md §5 C08", "E4"),
    "C06": ("translation_validation",
            "real check() verdict per core-fragment program (concrete) vs. a dynamic path oracle run by CrossHair/z3 over symbolic branch-decision vectors: no faulting path for accepted programs, a solver-produced faulting path for each rejected one",
            "Restricted: the solver ranges over control-flow paths (decision vectors of up to 10 opaque conditions), the real linearity checker runs concretely on each program of a generated corpus (60 quick / 1200 thorough + 37 fixed; "
            "allocation, borrow/consume calls, moves, swap, tuples, struct fields, if/while/break/continue/return, 7 signatures). Soundness: accepted => no decision vector makes the oracle report use-after-move, leak, "
            "overwrite of a live value, a borrowed parameter not handed back or moved. Completeness: rejected with a linearity error => the solver exhibits such a vector (replayed natively).",
            TB + "; lib/e6.py oracle = executable statement of the path condition and ownership rules; generator", "DESIGN.md §5 C06", "E4"),
    "C03": ("translation_validation",
            "CrossHair/z3 symbolic execution of (CPython on the source || walk over the CFG the real CFGBuilder built) per corpus program, symbolic inputs and symbolic opaque-call results; real check() decides acceptance",
            "Three levels: the CFG the real builder produces, the checked CFGs the real checker produces (E5) and the HUGR the real back end emits (E7), each executed side by side with CPython. For each program of a generated classical corpus (120 quick / 900 thorough + fixed and array-flavoured ones; structs, generic helpers, symbolic ranges; if/elif/else, bounded while, for over range, break/continue/return, dead code, nested defs, unpacking, "
            "walrus, conditional expressions, short-circuit and chained comparisons) that the real check() accepts, every path of CPython's execution and of the block walk over the real builder's CFG is explored for symbolic inputs; "
            "results, panics and event traces must agree (E5 / E7 on the first 36 quick / 300 thorough programs; paths with a 64-bit overflow or inside a known C04 region are outside). Programs inside the region of the known hoisting finding are probed separately.",
            TB + "; lib/e4.py block walker (edge convention successors[1] = true), models of MakeIter/IterNext; lib/e5.py, lib/e7.py interpreters; the corpus generators", "DESIGN.md §5 C03", "E4+E5+E7"),
    "C05": ("translation_validation",
            "CrossHair/z3 symbolic execution of (CPython on the source || walk over the real CFG) comparing ordered event traces, for symbolic inputs and symbolic results of every opaque call",
            "Three levels (real CFG, real checked CFGs, HUGR emitted by the real back end), each against CPython: effect-heavy generated programs (60 quick / 600 thorough + fixed + array-flavoured): calls of opaque f/g/h, emit, panic interleaved with operators, and/or/not, "
            "comparisons, conditional expressions, walrus, tuples, subscript reads / stores / augmented stores, borrowed arrays, in assignment, condition, argument and return position. Event traces (callee, argument values) must be identical on every path; at HUGR level "
            "every dataflow region must in addition order its possibly side-effecting nodes. Five known findings (hoisting before earlier operands, double evaluation of a chained comparison's middle operand, reflected comparisons, index before a temporary "
            "container, outer index before inner index) are delimited by syntactic region predicates and re-established by probes inside the regions.",
            TB + "; lib/e4.py block walker (edge convention successors[1] = true), models of MakeIter/IterNext; lib/e5.py, lib/e7.py interpreters; the corpus generators" + "; lib/e4_region.py", "DESIGN.md §5 C05", "E4+E5+E7"),
    "C32": ("translation_validation",
            "one program per Python statement/expression kind and optional clause through the real check(); every accepted one compared (CPython || walk over the real CFG) on all paths for symbolic inputs (CrossHair/z3)",
            "96 programs (node classes of CPython's ast and optional clauses are enumerated and the coverage is reported): rejected with a GuppyError is fine, accepted must behave as CPython executes the source. "
            "Constructs are made observable (a decorator that changes the function, a loop else that changes the result, defaults that are used).",
            TB + "; lib/e4.py block walker (edge convention successors[1] = true), models of MakeIter/IterNext; the corpus generators", "DESIGN.md §5 C32", "E4"),
    "C29": ("model_checking",
            "CrossHair/z3 symbolic execution of the real wrap() on symbolic strings, and solver-enumerated geometry cases through the real DiagnosticsRenderer whose output is parsed back and compared with source text and span",
            "wrap(): every string of length <=3/4 over {a,b,space,newline,-} with widths 1..3 is symbolic: total, words preserved in order, no line over the width, indents do not move breaks. Renderer: all indentations 0..20 of span and context lines "
            "(both sides of the 12-column rule), offsets, widths, 1/2/4-line spans, primary/secondary, 5 label and 5 message texts, child with/without span: true line numbers, one common removed indentation, markers exactly under the spanned columns, all words in order. "
            "The renderer cases are str-shaped, so each path is one concrete case (stated in the evidence).",
            TB + "; spans start on and end after a non-blank character", "DESIGN.md §5 C29", "E1"),
    "C10": ("model_checking",
            "real check() with the iteration order of every set inside the compiler chosen by the solver (import-hook AST rewriting of the current source; CrossHair/z3 enumerates the order decisions); outcome compared with the canonical-order outcome",
            "Restricted to set-iteration order in the front end: all modules of guppylang_internals are recompiled from source so that for/comprehension/iter/list/tuple/star over a set and set.pop() ask a controller; "
            "on 10 programs (several simultaneous faults / several live variables) the first K order decisions per site group are symbolic; the rendered diagnostic or the dump of the checked CFG (block signatures = port order) must not change. "
            "Sites that received a real set are listed in the evidence; other sites are unexercised, not cleared.",
            TB + "; lib/setorder.py rewriting; assumption that set order is the only channel for hash-seed/heap-layout dependence", "DESIGN.md §5 C10", "E1"),
    "C21": ("model_checking",
            "CrossHair/z3 symbolic execution of the real comptime dunder dispatch (DunderMixin + fall-back wrappers) and the real regular-mode _synthesize_binary under the same symbolic type-check outcomes",
            "Two levels. Lowering level: 31 bodies (operators with constants on either side, mixed int / float, bools, calls, tuples incl. a 1-tuple return, unrolled loops, arrays incl. arrays lent to borrowing functions, structs, int / float / abs / len, a traced nat next to int constants) are defined under both decorators, "
            "checked and lowered by /repo (the comptime one through the real tracer), and the two emitted HUGRs are interpreted (lib/e7.py) on the same symbolic arguments and opaque results: values and event traces must agree; one known finding (Python int argument for a nat parameter). "
            "Dispatch level: for each of 18 binary operators, operand kinds (traced value / Python constant on either side) and outcomes of the direct and reflected method, the call the comptime path "
            "finally makes and the call the regular checker makes must both denote the source expression (meaning table written from the Python data model), and both reject iff no method applies; every dunder DunderMixin defines "
            "asks for the method of its own name; unary table agrees.",
            TB + "; recording stand-ins for tracing state and Globals.get_instance_func; the data-model table in the harness; lib/e7.py (both sides read by the same interpreter)", "DESIGN.md §5 C21", "E1+E7"),
    "C24": ("model_checking",
            "CrossHair/z3 symbolic execution of the real unitary checker on checked blocks with symbolic context/callee/nested-call flag sets and argument shapes; oracle = the statement's rejection rule",
            "BBUnitaryChecker/check_cfg_unitary/check_invalid_under_dagger run on blocks built from the real node classes: all 8x8x8 flag sets x 6 argument shapes x 9 positions of the call (statement, assignment/annotated/augmented value, "
            "return, branch predicate, operand, argument of a classical call, tuple element) x local/global/tensor callee; barrier/state_result exemptions; subscripted places and loop/assignment syntax under dagger. "
            "The two defect shapes found are confirmed through @guppy(unitary=True).check().",
            TB + "; hand-built checked blocks use the node layout the real checker emits; stand-in for ENGINE.get_parsed", "DESIGN.md §5 C24", "E1"),
    "C09": ("model_checking",
            "CrossHair/z3 symbolic execution of the worklist loop body sliced from the real analysis.py from an arbitrary state (inductive step, any popped block), plus whole-graph runs under solver-chosen schedules",
            "One iteration of ForwardAnalysis.run/BackwardAnalysis.run (sliced from the current source, queue.pop() made a parameter) runs symbolically from an arbitrary lattice state around the popped block "
            "(0-2 quick / 0-3 thorough ordinary neighbours, self-loop, dummy edge, include_unreachable both ways): the block becomes stable and every dependant is queued if it changed, so an empty queue is a solution whatever the order; "
            "initialisation and lattice laws (join/apply_bb distributive, eq) make it the least/greatest one. On 6 real CFGs the first K worklist picks are chosen by the solver and CFG.analyze is compared with an independent path search.",
            TB + "; textbook MOP=MFP for distributive frameworks; induction over worklist steps", "DESIGN.md §5 C09", "E1"),
    "C30": ("model_checking",
            "symbolic execution of the real span.py with CrossHair/z3 over unbounded integer coordinates",
            "Every sentence of the property is a CrossHair condition over the real Loc/Span code with all line/column numbers symbolic "
            "mathematical integers; 'confirmed' means the path tree was exhausted, so the claim is for every coordinate value, two file names.",
            TB + "; CrossHair's model of dataclass/tuple ordering", "DESIGN.md §5 C30", "E1"),
    "C33": ("model_checking",
            "CrossHair/z3 symbolic execution of the real experimental.py under all enable/disable/enter/exit scripts up to a bound, compared with a stack model",
            "All scripts of <=4 (quick) / <=6 (thorough) operations over {with-enable, with-disable, normal exit, exceptional exit, bare enable(), bare disable()} from either "
            "initial flag are executed symbolically against the real module; after every step flag and all four check_* gates are compared with a stack model. "
            "The four gated features are driven through the real front end with the flag symbolic. Bounded: longer scripts are outside the claim.",
            TB + "; the stack model of nesting", "DESIGN.md §5 C33", "E1"),
    "C23": ("model_checking",
            "CrossHair/z3 symbolic execution of the real mock_builtins context manager under all nesting/exception schedules within a bound",
            "The only writer of user globals during comptime tracing (mock_builtins) is executed symbolically for every combination of user bindings of int/float/len in "
            "two modules, every nesting of up to 2 (quick) / 3 (thorough) traced functions over those modules and every raise point; key order and value identity "
            "of both globals dicts are compared with the snapshot.",
            TB + "; assumption that mock_builtins is the only writer of user globals", "DESIGN.md §5 C23", "E1"),
    "C28": ("model_checking",
            "CrossHair/z3 symbolic execution of /repo's EmulatorInstance under all derivation scripts up to a bound against a recording SeleneInstance stand-in",
            "Derivation scripts of <=3 (quick) / 4 (thorough) with_*/..._sim operations, each applied to a symbolic earlier instance, run symbolically; after each step the effective "
            "run configuration (incl. per-component effective seed as selene computes it) of every earlier instance is re-observed through the real run() and must be unchanged.",
            TB + "; selene's seed-precedence rule as read from the installed selene_sim", "DESIGN.md §5 C28", "E1"),
    "C27": ("model_checking",
            "CrossHair/z3 symbolic execution of /repo's Stack/PriorityQueue Guppy source under Python models of Option/array/panic; one inductive step per operation",
            "Each operation (push/pop/peek/len/next/discard_empty, constructors) is run symbolically from an arbitrary pre-state satisfying the representation invariant "
            "(any fill level 0..K, unbounded integer priorities/payloads) and compared with a list / sorted-multiset reference model; invariant preservation makes one step cover "
            "histories of any length within capacity K (4,5 quick; 4..7 thorough). A 5-operation history from empty cross-checks the induction.",
            TB + "; lib/guppy_models.py (Python models of Guppy primitives); induction principle", "DESIGN.md §5 C27", "E2"),
    "C18": ("model_checking",
            "CrossHair/z3 symbolic execution of /repo's Range iterator source with 64-bit wrapping arithmetic over the whole int64 domain",
            "start/stop/step range over all of int64 (step != 0); the first L (6 quick / 12 thorough) __next__ calls are unrolled and compared with Python's range, incl. the "
            "region where next+step leaves int64; the comptime variant's static size annotation and the overload order are read from the AST.",
            TB + "; lib/guppy_models.py; int + is wrapping iadd and comparisons are signed (C04)", "DESIGN.md §5 C18", "E2"),
    "C14": ("model_checking",
            "CrossHair/z3 symbolic execution of the real type classes with symbolic copy/drop bounds of the children; structural rule as oracle",
            "12 type constructors (tuples, array, option, frozenarray, list, function, generic/non-generic structs, sized iterator) are built over two type-variable leaves whose "
            "(copyable, droppable) bounds are symbolic (all 16 valuations), int and qubit; copyable/droppable/linear/affine/hugr_bound, to_hugr().type_bound() and requires_drop are compared "
            "with the structural rule, one layer (induction step over arbitrary children) and two layers.",
            TB + "; installed hugr's type_bound(); induction over nesting depth", "DESIGN.md §5 C14", "E1"),
    "C17": ("model_checking",
            "CrossHair/z3 symbolic execution of the real literal range check / literal typing / constant construction over unbounded integers",
            "An unbounded symbolic Python int runs through _int_bounds_check, python_value_to_guppy_type (all hints, nested in tuples/lists), python_value_to_hugr + IntVal/UnsignedIntVal "
            "payload decoding, and the -<const> folding of the CFG builder; acceptance must coincide with [-2^63,2^63-1] / [0,2^64-1] and the payload must decode to the value. Linear integer arithmetic: no bound on the value.",
            TB + "; match-statement desugaring of lib/astx.py (validated against the original functions at import)", "DESIGN.md §5 C17", "E1"),
    "C04": ("model_checking",
            "SMT (z3 BitVec64/Float64, LIA twin) obligations generated from /repo's live operator binding tables; sat models replayed against CPython",
            "For every dunder of int/nat/float/bool the live definition object is read (OpCompiler closure -> HUGR op, NoopCompiler, ReversingChecker, @guppy body AST) and the HUGR semantics of that binding "
            "is asserted unequal to Python's result: unsat = equal for all 64-bit operands. Known defective regions demand exactly the documented defective behaviour, so other deviations there are still caught. "
            "The dispatch glue (binary_table, _synthesize_binary, ReversingChecker) runs on the real code under CrossHair. Float // % divmod are only searched for counterexamples (one fpDiv + one fpFMA).",
            "HUGR op semantics table and Python semantics table in lib/e3_num.py (cross-validated against Python reference implementations / CPython on random+boundary operands each run); z3 5.1; import shim", "DESIGN.md §5 C04", "E3"),
    "C16": ("model_checking",
            "CrossHair/z3 on the real try_coerce_to/check_type_against for every type pair; SMT obligations (E3) for the value of each conversion dunder",
            "All 81 (actual, expected) pairs over 3 numeric and 6 non-numeric real types run through the real coercion code with a recording context: a coercion happens iff actual < expected in nat < int < float, "
            "through __int__/__float__ only. The converted value is decided by SMT over all 64-bit patterns from the live bindings (nat.__int__ identity, convert_u/convert_s = round-to-nearest).",
            TB + "; recording stand-in for the checker context; lib/e3_num.py tables", "DESIGN.md §5 C16", "E1+E3"),
    "C12": ("model_checking",
            "bounded-exhaustive term grammar through the real unify; z3 theory of finite trees (ADTs) decides existence, soundness and most-generality per case; generic calls through the real check() vs z3 existence of an instantiation",
            "Every (term, term, prior substitution) of a grammar of real Type objects (262 terms quick / 1870 thorough, 8 consistent prior substitutions) runs through the real unify; the statement's own quantifiers "
            "('some assignment', 'most general') range over infinitely many assignments and are decided by three z3 ADT queries per case; termination is observed (recursion limit). "
            "Stage 2: generic calls (9 parameter shapes over T, U x 14 argument expressions, 1 and 2 parameters) go through the real check(); accepted iff z3 finds an instantiation making the arguments fit.",
            "z3 ADT theory as decision procedure for unifiability; the encoding of Type objects into the datatype; import shim", "DESIGN.md §5 C12", "E1"),
}

NOT_APPLICABLE = {
    "C01": "validity of the emitted HUGR is decided by the Rust validator (hugr.cli.validate), not by a solver: /repo's lowering does run here (CompilerContext.compile, used by the E7 checks) but the deciding step of this property is outside the technique, and the quantifier is over whole programs only",
    "C02": "quantifies over whole programs through the entire checker (ast/str objects CrossHair must realise); no input a solver can range over; the rendering sub-claim is decided under C29",
    "C20": "gate matrices live in tket/Selene; needs complex floating-point matrix products with sin/cos, outside SMT reach; emulator cannot run /repo's output",
    "C25": "concerns the structure of the emitted HUGR for modifier blocks whose meaning is fixed by tket's modifier ops on qubits; no classical observable the E7 interpreter could compare, nothing a solver could range over",
    "C26": "wiring is emitted by the back end and judged on the emulator; pytket circuits are opaque C++ objects that symbolic execution must concretise",
}

PENDING = {}


def main():
    checks = []
    for pid, (cat, tech, text, note, ref, eng) in sorted(CHECKS.items()):
        checks.append({
            "property_id": pid,
            "quick_cmd": f"./check {pid} --tier quick",
            "thorough_cmd": f"./check {pid} --tier thorough",
            "evidence_file": f"/verif/evidence/{pid}.json",
            "replay_cmd_template": f"./check {pid} --replay {{path}}",
            "engine": eng,
            "level_claimed": {"category": cat, "text": text, "design_ref": ref},
            "level_note": note,
            "technique": tech,
        })
    all_ids = [json.loads(l)["id"] for l in open(os.path.join(ROOT, "properties.jsonl")) if l.strip()]
    pending = {i: "check not built yet (planned, see DESIGN.md section 5); not claimed until it is" for i in all_ids
               if i not in CHECKS and i not in NOT_APPLICABLE}
    na = [{"property_id": k, "reason": v} for k, v in sorted({**NOT_APPLICABLE, **pending}.items()) if k not in CHECKS]
    m = {
        "version": 1,
        "setup_cmd": "./setup.sh",
        "hooks": {
            "guard": "CQCL_GUPPYLANG_VERIF",
            "enable": "no source hooks: schedules, set orders and loop-body entry points are injected by AST rewriting of /repo's current source inside the harness generators; checks read /repo's working tree through lib/repo_env.py (VERIF_REPO_ROOT, default /repo)",
            "baseline_off_cmd": "cd /repo && /venv/bin/python -m pytest -ra -q -p no:cacheprovider --timeout=900 --continue-on-collection-errors",
            "source_commits": [],
            "add_only": True,
        },
        "engines": [
            {"name": "E7", "path": "lib/e7.py", "kind_free_text": "interpreter over the HUGR emitted by /repo's back end (CompilerContext.compile runs under the import shim), executed under CrossHair side by side with CPython on symbolic inputs; static check that possibly side-effecting nodes of a region are ordered"},
            {"name": "E5", "path": "lib/e5.py", "kind_free_text": "interpreter over the checked CFGs of the real front end (live operator bindings -> HUGR op semantics), executed under CrossHair side by side with CPython"},
            {"name": "E4", "path": "lib/e4.py", "kind_free_text": "translation validation of the real CFGBuilder's output against CPython's execution of the same source under CrossHair (symbolic inputs and call results); corpora from lib/e4_corpus.py, lib/e4_syntax.py"},
            {"name": "E3", "path": "lib/e3_num.py", "kind_free_text": "direct z3 encodings generated from /repo's live binding tables (numeric tower), process pool, concrete replay against CPython"},
            {"name": "E2", "path": "lib/guppy_models.py", "kind_free_text": "Guppy std source (Python syntax) from /repo compiled unchanged and executed under CrossHair with Python models of the Guppy primitives"},
            {"name": "E1", "path": "lib/xh_worker.py", "kind_free_text": "CrossHair (z3) symbolic execution of real /repo Python units, one OS process per condition, reachability twin, native replay"},
        ],
        "checks": checks,
        "not_applicable": na,
        "notes": "Exit codes: 0 held on everything explored (inconclusive obligations listed in evidence), 1 replayed violation not in known_findings.json, 3 harness error (never success). /repo's pinned tests import the installed guppylang 1.0.4, not /repo's sources; the checks here execute /repo's sources through lib/repo_env.py.",
    }
    with open(os.path.join(ROOT, "MANIFEST.json"), "w") as f:
        json.dump(m, f, indent=1)
    print(f"{len(checks)} checks, {len(na)} not applicable")


if __name__ == "__main__":
    main()
