#!/usr/bin/env python3
"""Print the prompt given to a fresh sub-agent that is asked to break one property (nothing from /verif but the
property text goes in).  usage: tools/seed_prompt.py C04"""
import json, sys
pid = sys.argv[1]
for l in open("/verif/properties.jsonl"):
    p = json.loads(l)
    if p["id"] == pid:
        break
else:
    sys.exit("unknown property")
print(f"""You are helping to evaluate a verification framework by seeding a realistic bug.

Repository: a git worktree of CQCL/guppylang (Guppy, a Python-embedded quantum-classical language; compiler front end in
guppylang-internals/src/guppylang_internals, user library in guppylang/src/guppylang) at /tmp/seed-{pid} . Work ONLY inside
/tmp/seed-{pid} (edit sources there) and write your deliverables to /tmp/seed-{pid}-out/ . Never touch /repo or /verif, never commit.

The property that must be BROKEN by your change:

  id: {p['id']}   title: {p['title']}
  statement: {p['statement']}
  quantified over: {p['quantifier']['text']}
  code it is anchored in: {', '.join(p['anchors']['files'])}
  mechanisms meant to make it hold: {json.dumps(p['anchors'].get('mechanism', []))}

Task: produce TWO independent source changes (each one a separate small patch against the unmodified worktree) to the
library code under /tmp/seed-{pid} such that, for each:
  * the code still imports/compiles and the existing test suite still passes
    (cd /tmp/seed-{pid} && /venv/bin/python -m pytest -q -p no:cacheprovider -x tests/<relevant subset> ; note: /venv has a NEWER
    guppylang (1.0.4) installed in site-packages and the pinned tests import that one, so the tests do not really exercise
    the worktree's sources - do run a relevant subset anyway and confirm it passes);
  * the property above no longer holds, but ONLY under something specific: an unusual input value or boundary, a particular
    ordering/interleaving, a multi-step sequence of operations, a particular combination of flags, or two cooperating sites that
    each look fine alone. It must NOT be a change that ordinary everyday use would expose at once (e.g. not "every addition is wrong").
    Think of the kind of regression a plausible refactoring or "optimisation" or careless bug fix would introduce.
  * you provide a demonstration: a small python script demo.py that exits 0 on the unmodified worktree and exits non-zero (assert
    failure) with the change applied. The demonstration must execute the WORKTREE's sources, not the installed package:

        import sys; sys.path.insert(0, "/tmp/seedkit"); import compat; compat.use("/tmp/seed-{pid}")

    as the first line makes `import guppylang` / `import guppylang_internals` come from the worktree (run with /venv/bin/python).
    With it the whole front end works (decorator, CFG builder, type checker `f.check()`, linearity checker, diagnostics, all of
    guppylang.std imports, guppylang.emulator classes). `f.compile()` and actually running programs on the emulator do NOT
    work for the worktree's sources (dependency version mismatch), so demonstrate at the level of the Python functions /
    classes involved (calling the internal function directly is fine). @guppy functions must live in a real .py file.

Deliverables in /tmp/seed-{pid}-out/ :
  patch1.diff, demo1.py, patch2.diff, demo2.py   (patches made with `git -C /tmp/seed-{pid} diff`, applicable with `git apply` on a clean tree)
  NOTES.md: for each patch, 3-6 lines: what was changed, why it still looks plausible, exactly what is needed for it to manifest,
  the commands you ran and their outcomes (demo on clean tree = exit 0, demo with patch = non-zero, test subset passes).
Leave the worktree CLEAN (git -C /tmp/seed-{pid} checkout -- . ) when done. Keep patches small (a few lines each). The two patches should
break the property in different ways / at different code sites. Do not look for or read anything under /verif.""")
