#!/usr/bin/env python3
"""Private self-test: run checks against a scratch copy of /repo's sources carrying one textual mutation.
usage: tools/mut.py <relpath> <old> <new> <check-id> [<check-id> ...] [--tier T]
The scratch copy lives under /var/tmp and is removed afterwards.  Evidence written by these runs is
restored afterwards (evidence must describe /repo itself)."""
import os, shutil, subprocess, sys, tempfile

def main():
    args = sys.argv[1:]
    tier = "quick"
    if "--tier" in args:
        i = args.index("--tier"); tier = args[i + 1]; del args[i:i + 2]
    rel, old, new, *ids = args
    d = tempfile.mkdtemp(prefix="gl-mut-", dir="/var/tmp")
    try:
        for sub in ("guppylang/src", "guppylang-internals/src"):
            shutil.copytree(os.path.join("/repo", sub), os.path.join(d, sub))
        p = os.path.join(d, rel)
        s = open(p).read()
        if s.count(old) < 1:
            print("MUTATION DOES NOT APPLY"); return 2
        open(p, "w").write(s.replace(old, new, 1))
        env = dict(os.environ, VERIF_REPO_ROOT=d, VERIF_EVIDENCE_DIR=os.path.join(d, "ev"))
        rc_all = {}
        for i in ids:
            r = subprocess.run(["/verif/check", i, "--tier", tier], env=env, capture_output=True, text=True)
            rc_all[i] = r.returncode
            lines = [l for l in (r.stdout + r.stderr).splitlines() if l.startswith(("VIOLATION", "HARNESS", "[", "KNOWN", "  "))]
            print(f"== {i}: exit {r.returncode}"); print("\n".join(lines[:12]))
        return 0
    finally:
        shutil.rmtree(d, ignore_errors=True)

sys.exit(main())
