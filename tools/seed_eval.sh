#!/bin/bash
# tools/seed_eval.sh <PROP> <n> [check ids...]  — confirm a sub-agent's seeded change (demo passes clean / fails patched in its scratch
# worktree), then run the quick checks against a scratch copy of /repo's sources carrying the patch (VERIF_REPO_ROOT); /repo itself and
# /verif/evidence are not touched, so several of these can run side by side.
# With SEED_DIR=/verif/seeded/<name> the patch/demo are taken from there (re-evaluation of a stored seed).
P=$1; N=$2; shift 2; CHECKS=${@:-$P}
if [ -n "$SEED_DIR" ]; then PATCH=$SEED_DIR/patch.diff; DEMO=$SEED_DIR/demo.py; else PATCH=/tmp/seed-$P-out/patch$N.diff; DEMO=/tmp/seed-$P-out/demo$N.py; fi
WT=/tmp/seed-$P
if [ -d $WT ]; then
  git -C $WT checkout -q -- . ; git -C $WT status --short | grep -v '^??' && { echo "worktree not clean"; exit 2; }
  /venv/bin/python $DEMO >/dev/null 2>&1; c=$?
  git -C $WT apply $PATCH || { echo "patch does not apply"; exit 2; }
  /venv/bin/python $DEMO >/dev/null 2>&1; p=$?
  git -C $WT checkout -q -- .
  echo "demo clean=$c patched=$p"
  [ $c -eq 0 ] && [ $p -ne 0 ] || { echo "DEMO NOT CONFIRMED"; exit 2; }
fi
D=$(mktemp -d /var/tmp/gl-seed-XXXXXX)
mkdir -p $D/guppylang $D/guppylang-internals $D/ev
cp -r /repo/guppylang/src $D/guppylang/; cp -r /repo/guppylang-internals/src $D/guppylang-internals/
( cd $D && patch -s -p1 < $PATCH ) || { echo "patch does not apply to /repo's sources"; rm -rf $D; exit 2; }
for c in $CHECKS; do
  s=$(date +%s); out=$(cd /verif && VERIF_REPO_ROOT=$D VERIF_EVIDENCE_DIR=$D/ev ./check $c --tier ${TIER:-quick} 2>&1); rc=$?; e=$(date +%s)
  echo "== $c exit=$rc $((e-s))s"; echo "$out" | grep -E "^(VIOLATION|HARNESS|\[)" | head -6; echo "$out" | grep -A1 "^VIOLATION" | grep "^  " | head -3
done
rm -rf $D
