#!/bin/bash
# run every claimed check (quick by default) and print exit code + wall time
cd "$(dirname "$0")/.."
TIER=${1:-quick}
for id in $(python3 -c "import json; print(' '.join(c['property_id'] for c in json.load(open('MANIFEST.json'))['checks']))"); do
  s=$(date +%s)
  out=$(./check $id --tier $TIER 2>&1); rc=$?
  e=$(date +%s)
  echo "$id exit=$rc $((e-s))s $(echo "$out" | grep -c '^KNOWN-FINDING') known  $(echo "$out" | grep '^\[' | head -1)"
  if [ $rc -ne 0 ]; then echo "$out" | grep -v '^KNOWN' | head -8; fi
done
