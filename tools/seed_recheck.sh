#!/bin/bash
# tools/seed_recheck.sh <seed-name> <check ids...> : run the quick checks against a scratch copy of /repo's sources carrying seeded/<seed-name>/patch.diff
# (private self-test; prints one line per check: exit code and the first VIOLATION)
S=$1; shift
for c in "$@"; do
  s=$(date +%s); out=$(tools/patched_run.sh /verif/seeded/$S/patch.diff ./check $c --tier quick 2>&1); rc=$?; e=$(date +%s)
  echo "$S vs $c: exit=$rc $((e-s))s $(echo "$out" | grep -m1 '^VIOLATION' | cut -c1-90) $(echo "$out" | grep -m1 '^HARNESS' | cut -c1-120)"
done
