"""E4 harness (C03 / C05 / C32): CPython's execution of a program's source vs. a walk over the control-flow graph the real
CFGBuilder builds for it, for symbolic arguments and symbolic results of the opaque calls (lib/e4.py).
The batch of programs is fixed per process (VERIF_E4_KIND / _N / _SEED / _BATCH); each is first put through the real
`check()` (concretely): only accepted programs are compared, as the properties speak about accepted programs."""
import importlib.util
import json
import os
import lib.repo_env
lib.repo_env.shim()
from lib import e4, e4_corpus
from guppylang_internals.error import GuppyError
from crosshair.tracers import NoTracing
from crosshair.core import realize

KIND = os.environ.get("VERIF_E4_KIND", "c03")
N = int(os.environ.get("VERIF_E4_N", "20"))
SEED = int(os.environ.get("VERIF_E4_SEED", "0"))
BATCH = [int(i) for i in os.environ.get("VERIF_E4_BATCH", "0").split(",")]
FUEL = int(os.environ.get("VERIF_E4_FUEL", "80"))
REGION = os.environ.get("VERIF_E4_REGION") or None
XLO, XHI = -3, 4

if KIND == "c32":
    from lib import e4_syntax
    ALL = e4_syntax.programs()
    EXTRA, MODEXTRA = e4_syntax.EXTRA_ENV, e4_syntax.MODULE_EXTRA
else:
    ALL = e4_corpus.corpus(KIND, N, SEED, REGION)
    EXTRA, MODEXTRA = None, ""
SRCS = [ALL[i] for i in BATCH if i < len(ALL)]
NB = len(SRCS)

_dir = os.environ.get("VERIF_TWIN_DIR") or "/var/tmp"
_tag = f"{BATCH[0]}-{BATCH[-1]}x{len(BATCH)}" + (f"_{REGION}" if REGION else "")
_path = os.path.join(_dir, f"e4mod_{KIND}_{_tag}_{os.getpid()}.py")
with open(_path, "w") as _f:
    _f.write(e4_corpus.module_text(SRCS, MODEXTRA))
_spec = importlib.util.spec_from_file_location(f"e4mod_{os.getpid()}", _path)
MOD = importlib.util.module_from_spec(_spec)
VERDICT: list = []
PROGS: list = []


class _Unexecutable:
    """an accepted program neither side can execute here (qubits): its text is still subject to the dropped-clause rule"""

    def __init__(self, src):
        self.src, self.name, self.code = src, src.split("(")[0].split()[-1], None


try:
    _spec.loader.exec_module(MOD)
    _defs = MOD.PROGRAMS
    _decorate_error = None
except Exception as _e:  # noqa: BLE001   (a construct the decorator itself refuses: every program of the batch counts as rejected)
    _defs = [None] * NB
    _decorate_error = f"{type(_e).__name__}: {_e}"
for _src, _d in zip(SRCS, _defs):
    if _d is None:
        VERDICT.append(("rejected", _decorate_error))
        PROGS.append(None)
        continue
    _exp = KIND == "c32" and _src.startswith("def s_exp_")       # checked with the experimental features on; only the dropped-clause rule applies
    import guppylang_internals.experimental as _X
    _old = _X.EXPERIMENTAL_FEATURES_ENABLED
    _X.EXPERIMENTAL_FEATURES_ENABLED = bool(_exp) or _old
    try:
        _d.check()
        VERDICT.append(("accepted", ""))
    except GuppyError as _e:
        VERDICT.append(("rejected", type(_e.error).__name__))
    except Exception as _e:  # noqa: BLE001
        VERDICT.append(("crashed", f"{type(_e).__name__}: {_e}"))
    finally:
        _X.EXPERIMENTAL_FEATURES_ENABLED = _old
    if VERDICT[-1][0] == "accepted" and _exp:
        PROGS.append(_Unexecutable(_src))
    elif VERDICT[-1][0] == "accepted":
        try:
            PROGS.append(e4.Prog(_src))
        except Exception as _e:  # noqa: BLE001
            VERDICT[-1] = ("harness-cannot-build", f"{type(_e).__name__}: {_e}")
            PROGS.append(None)
    else:
        PROGS.append(None)
with open(os.path.join(_dir, f"e4verdict_{KIND}_{_tag}.json"), "w") as _f:
    json.dump([{"index": i, "verdict": v[0], "why": v[1], "src": s} for i, v, s in zip(BATCH, VERDICT, SRCS)], _f)
LAST_DETAIL = None


def h_equiv(which: int, x: int, y: int, r0: int, r1: int, r2: int, r3: int, r4: int, r5: int, r6: int, r7: int) -> bool:
    """
    pre: 0 <= which < NB
    pre: XLO <= x <= XHI and -1000 <= y <= 1000
    post: _
    """
    global LAST_DETAIL
    prog = None
    for i in range(NB):
        if which == i:
            prog = PROGS[i]
    if prog is None:
        return True   # rejected by the real checker: nothing is claimed about it here
    if "# enumerate: x" in prog.src:
        x = realize(x)
    if KIND == "c32":
        dropped = e4_syntax.silently_dropped_clause(prog.src)
        if dropped:
            with NoTracing():
                LAST_DETAIL = f"ACCEPTED by the real checker although it contains a {dropped}, which checked programs cannot represent:\n{prog.src}"
            return False
    if prog.code is None:
        return True      # (no executable CFG reading: comprehensions, qubit programs) nothing to compare at this level
    ok, detail = e4.equivalent(prog, (x, y), [r0, r1, r2, r3, r4, r5, r6, r7], fuel=FUEL, extra=EXTRA)
    if not ok:
        with NoTracing():
            LAST_DETAIL = f"program #{BATCH[which] if isinstance(which, int) else '?'} ({prog.name}): {detail}\n{prog.src}"
    return ok
