"""C11 — the outcome of checking *and lowering* a definition does not depend on session history.
Real code: engine.py (CompilationEngine.check / reset / get_parsed / get_checked, DEF_STORE), definition/* (parse / check of
functions, structs, declarations), the whole checker — driven through the public `.check()`.
A history is a sequence of `.check()` calls on a pool of definitions (accepted and failing ones, a struct, generics, nested
closures, std iterators); the solver chooses the history and the target; the target's outcome after the history — the rendered
diagnostic, or the dump of its checked CFG — must equal its outcome as the first check of a session (computed once, at
import, before any other check).  For accepted targets the outcome includes a structural dump of the HUGR that /repo's back end
emits (CompilerContext.compile; node kinds, op names, constants, wiring) — packaging, validation and execution stay outside."""
import itertools
import os
import lib.repo_env
lib.repo_env.shim()
import importlib.util
import sys
import guppylang
from guppylang_internals import engine as EN
from crosshair.tracers import NoTracing
from crosshair.core import realize

lib.repo_env.assert_repo(EN)
# re-use the outcome function (normalised diagnostic / checked-CFG dump) and the program file of C10; no set-order hook here
os.environ.setdefault("VERIF_C10_PROG", "0")
_spec = importlib.util.spec_from_file_location("c10_for_c11", os.path.join(os.path.dirname(__file__), "C10_setorder.py"))


def _load_c10_without_hook():
    from lib import setorder
    orig = setorder.install
    setorder.install = lambda *a, **k: None      # the import hook is C10's instrument; C11 runs the unmodified modules
    try:
        m = importlib.util.module_from_spec(_spec)
        sys.modules[_spec.name] = m
        _spec.loader.exec_module(m)
    finally:
        setorder.install = orig
    return m


C10 = _load_c10_without_hook()
POOL_NAMES = ["rows_two_types", "maybe_undefined_siblings", "closure_captures", "closure_captures_gate_off", "struct_fields_live", "generic_two", "accepted_for",
              "use_after_move_two", "array_comp_captures", "unsolved_two"]
POOL = [next(d for d in C10.P.PROGRAMS if d.wrapped.name == n) for n in POOL_NAMES]
_spec2 = importlib.util.spec_from_file_location("c11_programs", os.path.join(os.path.dirname(__file__), "data", "c11_programs.py"))
P2 = importlib.util.module_from_spec(_spec2)
sys.modules[_spec2.name] = P2
_spec2.loader.exec_module(P2)
POOL += P2.PROGRAMS
POOL_NAMES += [d.wrapped.name for d in P2.PROGRAMS]
from lib import e7


def _hugr_dump(defn) -> str:
    """structural dump of the HUGR emitted for an accepted definition (lowered by /repo's back end)"""
    try:
        h, _ = e7.lower(defn)
    except Exception as e:  # noqa: BLE001   (the lowering raising is itself an observable outcome)
        return f"LOWERING RAISED {type(e).__name__}: {str(e)[:200]}"
    out = []
    for n in h:
        d = h[n]
        op = d.op
        extra = ""
        nm = type(op).__name__
        if nm == "Const":
            extra = repr(op.val)
        elif nm in ("FuncDefn", "FuncDecl"):
            extra = op.f_name
        elif nm == "Tag":
            extra = str(op.tag)
        elif nm == "Call":
            extra = repr(getattr(op, "type_args", ""))
        else:
            extra = e7._opname(op) if nm in ("ExtOp", "Custom") else ""
        ins = sorted((p.offset, [(o.node.idx, o.offset) for o in outs]) for p, outs in h.incoming_links(n))
        out.append(f"{n.idx} {nm} {extra} parent={d.parent.idx if d.parent is not None else None} in={ins}")
    return "\n".join(out)


def outcome(defn) -> str:
    r = C10.outcome(defn, None)
    if r.startswith("ACCEPTED"):
        r += "\n--HUGR--\n" + C10._norm(_hugr_dump(defn))
    return r

L = int(os.environ.get("VERIF_C11_L", "2"))
_SH, _NSH = (int(x) for x in os.environ.get("VERIF_C11_SHARD", "0/1").split("/"))
with NoTracing():
    # baselines: each target as the *first* check after a fresh engine state.  A new interpreter per target would be the
    # literal reading; ENGINE.reset() + first use is what a new session does to the engine, and the very first baseline of
    # this process is computed before anything else has been checked.
    BASE = {}
    for _d in POOL:
        EN.ENGINE.reset()
        BASE[_d.wrapped.name] = outcome(_d)
# histories are drawn from the whole pool (VERIF_C11_HPOOL=all) or from the members most likely to leave something behind: the
# failing ones, the failing call chain, the shared leaf and its users, the never-returning and the twice-instantiated function
_HP = os.environ.get("VERIF_C11_HPOOL", "core")
HIST_POOL = list(range(len(POOL))) if _HP == "all" else [POOL_NAMES.index(n) for n in
                                                          ("use_after_move_two", "unsolved_two", "mid_calls_bad", "top_calls_mid", "ok_user", "spin", "uses_pick", "closure_captures")]
HISTORIES = [h for n in range(0, L + 1) for h in itertools.product(HIST_POOL, repeat=n)]
CASES = [(h, t) for h in HISTORIES for t in range(len(POOL))][_SH::_NSH]
LAST_DETAIL = None


def h_history(case: int) -> bool:
    """
    pre: 0 <= case < len(CASES)
    post: _
    """
    global LAST_DETAIL
    hist, tgt = CASES[realize(case)]
    with NoTracing():
        for i in hist:
            outcome(POOL[i])
        got = outcome(POOL[tgt])
        again = outcome(POOL[tgt])       # and compiling it a second time changes nothing either
        want = BASE[POOL_NAMES[tgt]]
        for label, g in (("after the history", got), ("when checked twice in a row", again)):
            if g != want:
                a, b = want.splitlines(), g.splitlines()
                i = next((j for j in range(min(len(a), len(b))) if a[j] != b[j]), min(len(a), len(b)))
                LAST_DETAIL = (f"history {[POOL_NAMES[j] for j in hist]} then {POOL_NAMES[tgt]}: outcome {label} differs from the first-check outcome at line {i}: "
                               f"{(a[i] if i < len(a) else '<end>')[:300]} | {(b[i] if i < len(b) else '<end>')[:300]}")
                return False
        return True


def h_session() -> bool:
    """every case of this shard, in order, in one interpreter session (native replay of failures that need the earlier cases)"""
    for c in range(len(CASES)):
        if not h_history(c):
            return False
    return True
