"""C11 (front-end part) — the outcome of checking a definition does not depend on session history.
Real code: engine.py (CompilationEngine.check / reset / get_parsed / get_checked, DEF_STORE), definition/* (parse / check of
functions, structs, declarations), the whole checker — driven through the public `.check()`.
A history is a sequence of `.check()` calls on a pool of definitions (accepted and failing ones, a struct, generics, nested
closures, std iterators); the solver chooses the history and the target; the target's outcome after the history — the rendered
diagnostic, or the dump of its checked CFG — must equal its outcome as the first check of a session (computed once, at
import, before any other check).  Compilation to HUGR cannot run for /repo here: the claim is about checking only."""
import itertools
import os
import lib.repo_env
lib.repo_env.shim()
import importlib.util
import sys
import guppylang
from guppylang_internals import engine as EN
from crosshair.tracers import NoTracing
from crosshair.core import realize

lib.repo_env.assert_repo(EN)
# re-use the outcome function (normalised diagnostic / checked-CFG dump) and the program file of C10; no set-order hook here
os.environ.setdefault("VERIF_C10_PROG", "0")
_spec = importlib.util.spec_from_file_location("c10_for_c11", os.path.join(os.path.dirname(__file__), "C10_setorder.py"))


def _load_c10_without_hook():
    from lib import setorder
    orig = setorder.install
    setorder.install = lambda *a, **k: None      # the import hook is C10's instrument; C11 runs the unmodified modules
    try:
        m = importlib.util.module_from_spec(_spec)
        sys.modules[_spec.name] = m
        _spec.loader.exec_module(m)
    finally:
        setorder.install = orig
    return m


C10 = _load_c10_without_hook()
POOL_NAMES = ["rows_two_types", "maybe_undefined_siblings", "closure_captures", "closure_captures_gate_off", "struct_fields_live", "generic_two", "accepted_for",
              "use_after_move_two", "array_comp_captures", "unsolved_two"]
POOL = [next(d for d in C10.P.PROGRAMS if d.wrapped.name == n) for n in POOL_NAMES]
L = int(os.environ.get("VERIF_C11_L", "2"))
_SH, _NSH = (int(x) for x in os.environ.get("VERIF_C11_SHARD", "0/1").split("/"))
with NoTracing():
    # baselines: each target as the *first* check after a fresh engine state.  A new interpreter per target would be the
    # literal reading; ENGINE.reset() + first use is what a new session does to the engine, and the very first baseline of
    # this process is computed before anything else has been checked.
    BASE = {}
    for _d in POOL:
        EN.ENGINE.reset()
        BASE[_d.wrapped.name] = C10.outcome(_d, None)
HISTORIES = [h for n in range(0, L + 1) for h in itertools.product(range(len(POOL)), repeat=n)]
CASES = [(h, t) for h in HISTORIES for t in range(len(POOL))][_SH::_NSH]
LAST_DETAIL = None


def h_history(case: int) -> bool:
    """
    pre: 0 <= case < len(CASES)
    post: _
    """
    global LAST_DETAIL
    hist, tgt = CASES[realize(case)]
    with NoTracing():
        for i in hist:
            C10.outcome(POOL[i], None)
        got = C10.outcome(POOL[tgt], None)
        again = C10.outcome(POOL[tgt], None)       # and compiling it a second time changes nothing either
        want = BASE[POOL_NAMES[tgt]]
        for label, g in (("after the history", got), ("when checked twice in a row", again)):
            if g != want:
                a, b = want.splitlines(), g.splitlines()
                i = next((j for j in range(min(len(a), len(b))) if a[j] != b[j]), min(len(a), len(b)))
                LAST_DETAIL = (f"history {[POOL_NAMES[j] for j in hist]} then {POOL_NAMES[tgt]}: outcome {label} differs from the first-check outcome at line {i}: "
                               f"{(a[i] if i < len(a) else '<end>')[:300]} | {(b[i] if i < len(b) else '<end>')[:300]}")
                return False
        return True
