"""E7 harness (stage 3 of C03 / C05 / C32): CPython's execution of a program's source vs. the interpretation of the *HUGR* that
/repo's back end emits for it (lib/e7.py: the whole lowering pipeline runs, the emitted graph is walked), for symbolic arguments
and symbolic results of the opaque calls.  A program whose emitted graph leaves two possibly side-effecting nodes of one
dataflow region unordered fails outright (its event trace would depend on the schedule).  Paths on which a 64-bit overflow
occurs, which enter the region of a known C04 finding, leave [0, n) with an array index or exhaust the fuel are outside the
claim; programs that need a node / op kind the interpreter has no model for are skipped and listed."""
import importlib.util
import json
import os
import sys
import lib.repo_env
lib.repo_env.shim()
from lib import e4, e4_corpus, e5, e7
from guppylang_internals.error import GuppyError
from crosshair.tracers import NoTracing
from crosshair.core import realize

KIND = os.environ.get("VERIF_E4_KIND", "c03")
N = int(os.environ.get("VERIF_E4_N", "20"))
SEED = int(os.environ.get("VERIF_E4_SEED", "0"))
BATCH = [int(i) for i in os.environ.get("VERIF_E4_BATCH", "0").split(",")]
FUEL = int(os.environ.get("VERIF_E7_FUEL", "3000"))
REGION = os.environ.get("VERIF_E4_REGION") or None
XLO, XHI = -3, 4
RMAX = 1000

STRICT = KIND == "c19"      # indices outside [0, n) are the subject: the HUGR array ops' own behaviour is interpreted, panics compare by kind
if KIND in ("c07", "c19"):
    from lib import e7_corpus
    ALL = e7_corpus.corpus(KIND, REGION, N if KIND == "c07" else 0, SEED)
    EXTRA, MODEXTRA = e7_corpus.native_env(STRICT), e7_corpus.MODULE_EXTRA
elif KIND == "c32":
    from lib import e4_syntax
    ALL = e4_syntax.programs()
    EXTRA, MODEXTRA = e4_syntax.EXTRA_ENV, e4_syntax.MODULE_EXTRA
else:
    ALL = e4_corpus.corpus(KIND, N, SEED, REGION)
    EXTRA, MODEXTRA = None, ""
SRCS = [ALL[i] for i in BATCH if i < len(ALL)]
NB = len(SRCS)
_dir = os.environ.get("VERIF_TWIN_DIR") or "/var/tmp"
_tag = f"{BATCH[0]}-{BATCH[-1]}x{len(BATCH)}" + (f"_{REGION}" if REGION else "")
_path = os.path.join(_dir, f"e7mod_{KIND}_{_tag}_{os.getpid()}.py")
with open(_path, "w") as _f:
    _f.write(e4_corpus.module_text(SRCS, MODEXTRA))
_spec = importlib.util.spec_from_file_location(f"e7mod_{os.getpid()}", _path)
MOD = importlib.util.module_from_spec(_spec)
sys.modules[_spec.name] = MOD
_spec.loader.exec_module(MOD)
ENTRIES: list = []      # (native Prog, definition, checked snapshot) or None
VERDICT: list = []
for _src, _d in zip(SRCS, MOD.PROGRAMS):
    try:
        _h, _fn = e7.lower(_d)
        _view = e7.H(_h)
        ENTRIES.append((e4.Prog(_src), _view, _fn, _view.unordered_effects(_fn)))
        VERDICT.append(("accepted", ""))
    except GuppyError as _e:
        ENTRIES.append(None)
        VERDICT.append(("rejected", type(_e.error).__name__))
    except Exception as _e:  # noqa: BLE001   (non-Guppy exception of the checker or an un-compilable source: not comparable)
        ENTRIES.append(None)
        VERDICT.append(("crashed", f"{type(_e).__name__}: {_e}"))
UNSUPPORTED: dict = {}
OUTSIDE: dict = {}
LAST_DETAIL = None
import atexit


def _dump():
    try:
        with open(os.path.join(_dir, f"e7report_{KIND}_{_tag}.json"), "w") as f:
            json.dump({"unsupported": {str(k): v for k, v in UNSUPPORTED.items()}, "paths_outside": OUTSIDE,
                       "accepted": sum(v[0] == "accepted" for v in VERDICT), "programs": len(VERDICT),
                       "not_lowered": [[BATCH[i], v[0], v[1][:200]] for i, v in enumerate(VERDICT) if v[0] != "accepted"]}, f)
    except Exception:  # noqa: BLE001
        pass


atexit.register(_dump)


def _outcome_b(entry, args, rec):
    prog, view, fn, _ = entry
    try:
        return ("ret", e7.run(view, fn, args, rec, FUEL, STRICT))
    except e4.Panic as p:
        return ("panic", str(p))
    except ZeroDivisionError:
        return ("raises", "ZeroDivisionError")
    except e5.Overflow:
        return ("outside", "overflow")
    except e5.KnownRegion as k:
        return ("outside", "known-region: " + str(k))
    except e5.OutOfFuel:
        return ("outside", "fuel")
    except e7.OutsideIndex:
        return ("outside", "index")
    except e5.Unsupported as u:
        return ("unsupported", str(u))
    except (TypeError, AttributeError, IndexError, KeyError, ValueError) as e:      # the emitted graph computes with a value of the wrong shape (e.g. an element that was never put back)
        return ("ill-formed", type(e).__name__)


def h_equiv7(which: int, x: int, y: int, r0: int, r1: int, r2: int, r3: int, r4: int, r5: int, r6: int, r7: int) -> bool:
    """
    pre: 0 <= which < NB
    pre: XLO <= x <= XHI and -1000 <= y <= 1000
    pre: (-RMAX <= r0) & (r0 <= RMAX) & (-RMAX <= r1) & (r1 <= RMAX) & (-RMAX <= r2) & (r2 <= RMAX) & (-RMAX <= r3) & (r3 <= RMAX) & (-RMAX <= r4) & (r4 <= RMAX) & (-RMAX <= r5) & (r5 <= RMAX) & (-RMAX <= r6) & (r6 <= RMAX) & (-RMAX <= r7) & (r7 <= RMAX)
    post: _
    """
    global LAST_DETAIL
    entry = None
    k = 0
    for i in range(NB):
        if which == i:
            entry, k = ENTRIES[i], i
    if entry is None:
        return True
    if "# enumerate: x" in entry[0].src:
        x = realize(x)
    if entry[3]:
        LAST_DETAIL = f"program #{BATCH[k]} ({entry[0].name}): the emitted HUGR leaves possibly side-effecting nodes unordered (region, node, node): {entry[3][:4]}\n{entry[0].src}"
        return False
    rets = [r0, r1, r2, r3, r4, r5, r6, r7]
    ra, rb = e4.Rec(rets), e4.Rec(rets)
    b = _outcome_b(entry, (x, y), rb)
    if b[0] == "unsupported":
        with NoTracing():
            UNSUPPORTED[BATCH[k]] = b[1]
        return True
    if b[0] == "outside":
        with NoTracing():
            key = b[1].split(":")[0]
            OUTSIDE[key] = OUTSIDE.get(key, 0) + 1
        return True
    a = e4.outcome(entry[0].run_native, (x, y), ra, EXTRA)
    if STRICT:
        # which message a panic carries is not the property's subject: compare "panicked" and the events before it
        a, b = (a[:1] if a[0] == "panic" else a), (b[:1] if b[0] == "panic" else b)
        ra.trace = [e for e in ra.trace if e[0] != "panic"]
        rb.trace = [e for e in rb.trace if e[0] != "panic"]
    if a != b or ra.trace != rb.trace:
        # (formatted under tracing: the values may still be symbolic here; in the native replay they are concrete)
        LAST_DETAIL = f"program #{BATCH[k]} ({entry[0].name}): CPython {a} with events {ra.trace}; emitted HUGR {b} with events {rb.trace}\n{entry[0].src}"
        return False
    return True


def unsupported_report():
    return dict(UNSUPPORTED)
