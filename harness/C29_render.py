"""C29 — diagnostic rendering is total and faithful.
Real code: diagnostic.py (DiagnosticsRenderer.render_diagnostic / render_snippet, wrap), span.py (Span, Loc.shift_left,
SourceMap.span_lines) from /repo.
Symbolic: indentation of the spanned line and of the context lines, start column and width of the span, number of lines
before it, span shape (1, 2 or 3+ lines), primary / secondary snippet, which label and message texts; for `wrap` a fully
symbolic short string and width.
Asserted (the statement): no exception; every numbered line is the true source line of that number minus one common
number of leading blanks; markers sit exactly under the spanned columns; every word of label / message / sub-messages
appears, in order; breaks happen only at white space."""
import os
import re
from dataclasses import dataclass
from typing import ClassVar
import lib.repo_env
import guppylang_internals.diagnostic as D
from guppylang_internals.diagnostic import DiagnosticsRenderer, Error, Note, Help, wrap
from guppylang_internals.span import Loc, Span, SourceMap
from crosshair.tracers import NoTracing
from crosshair.core import realize

lib.repo_env.assert_repo(D)

SHAPE = int(os.environ.get("VERIF_C29_SHAPE", "0"))     # 0 one line, 1 two lines, 2 four lines (middle elided)
LABELS = [None, "lab", "two words", "a label that is long enough to be wrapped over several lines because it exceeds sixty characters by far",
          "first\nsecond paragraph"]
MESSAGES = [None, "msg", "A message with several words in it", "para one\npara two",
            "a message that is long enough to be wrapped over several lines because it exceeds eighty characters by quite a margin indeed"]


@dataclass(frozen=True)
class _Err(Error):
    title: ClassVar[str] = "Title text"
    lab: str | None = None
    msg: str | None = None

    @property
    def rendered_span_label(self):
        return self.lab

    @property
    def rendered_message(self):
        return self.msg


@dataclass(frozen=True)
class _Sub(Note):
    lab: str | None = None
    msg: str | None = None

    @property
    def rendered_span_label(self):
        return self.lab

    @property
    def rendered_message(self):
        return self.msg


NUM = re.compile(r"^ *(\d+) \| (.*)$")
BAR = re.compile(r"^ *\| (.*)$")
LAST_DETAIL = None


def _fail(msg, buf):
    global LAST_DETAIL
    LAST_DETAIL = msg + "\n" + "\n".join(buf)
    return False


def _check_snippet(buf, lines, span, primary, label, start_at):
    """Checks one rendered snippet beginning at buffer index `start_at`; returns the index after it or -1."""
    i = start_at
    if i >= len(buf) or BAR.match(buf[i] + " ") is None and buf[i].strip() != "|":
        return _fail(f"snippet does not start with a padding line at {i}", buf) or -1
    i += 1
    shown = []          # (number, text)
    k = None
    mark = "^" if primary else "-"
    first_no, last_no = span.start.line, span.end.line
    # numbered lines up to and including the first span line
    while i < len(buf) and NUM.match(buf[i]):
        n, text = NUM.match(buf[i]).groups()
        n = int(n)
        orig = lines[n - 1]
        kk = len(orig) - len(text)
        if kk < 0 or orig[kk:] != text or orig[:kk].strip() != "":
            return _fail(f"line {n} is not the source line minus leading blanks: {text!r} vs {orig!r}", buf) or -1
        if k is None:
            k = kk
        elif k != kk:
            return _fail(f"different amounts of indentation removed ({k} vs {kk})", buf) or -1
        shown.append(n)
        i += 1
        if n == first_no:
            break
    if not shown or shown[-1] != first_no:
        return _fail(f"first span line {first_no} not shown (shown {shown})", buf) or -1
    if shown != list(range(shown[0], first_no + 1)):
        return _fail(f"context line numbers not consecutive: {shown}", buf) or -1

    def marks_of(line):
        m = BAR.match(line) or re.match(r"^ *\|$", line)
        if m is None:
            return None, None
        body = m.group(1) if m.groups() else ""
        cols = [j for j, ch in enumerate(body) if ch == mark]
        run = [j for j in cols if j < (cols[0] + len(cols) if cols else 0)]
        return body, cols

    if first_no != last_no:
        body, cols = marks_of(buf[i]) if i < len(buf) else (None, None)
        want = list(range(span.start.column - k, len(lines[first_no - 1]) - k))
        if body is None or cols[:len(want)] != want or body[:want[0]].strip() != "" or body[want[-1] + 1:].strip() != "":
            return _fail(f"first-line markers {cols} not under columns {want}", buf) or -1
        i += 1
        if last_no - first_no > 1:
            if i >= len(buf) or (BAR.match(buf[i]) is None) or BAR.match(buf[i]).group(1).strip() != "...":
                return _fail("elided middle lines are not shown as '...'", buf) or -1
            i += 1
        m = NUM.match(buf[i]) if i < len(buf) else None
        if m is None or int(m.group(1)) != last_no:
            return _fail(f"last span line {last_no} not shown", buf) or -1
        orig = lines[last_no - 1]
        if orig[k:] != m.group(2) or orig[:k].strip() != "":
            return _fail(f"last line differs from source line {last_no}", buf) or -1
        i += 1
        want = list(range(0, span.end.column - k))
    else:
        want = list(range(span.start.column - k, span.end.column - k))
    body, cols = marks_of(buf[i]) if i < len(buf) else (None, None)
    if body is None:
        return _fail("no highlight line after the last span line", buf) or -1
    lead = body[:len(want) + (want[0] if want else 0)]
    if [j for j, ch in enumerate(lead) if ch == mark] != want or lead.replace(mark, " ").strip() != "":
        return _fail(f"markers {cols} not exactly under columns {want}", buf) or -1
    rest = [body[len(lead):]]
    i += 1
    # continuation lines of a wrapped label
    words = (label or "").split()
    got = rest[0].split()
    while len(got) < len(words) and i < len(buf) and BAR.match(buf[i]) and not NUM.match(buf[i]):
        got += BAR.match(buf[i]).group(1).split()
        i += 1
    if got[:len(words)] != words:
        return _fail(f"label words {words} not all shown in order (got {got})", buf) or -1
    return i


def _mk_source(indent, ctx_indent, pre, w, nctx, tail):
    ctx = [" " * ctx_indent + "ctx%d = %d" % (j, j) for j in range(nctx)]
    first = " " * indent + "a" * pre + "X" * w + "b" * tail
    if SHAPE == 0:
        body = [first]
    elif SHAPE == 1:
        body = [first, " " * indent + "Y" * (w + 1) + "c"]
    else:
        body = [first, " " * (indent + 2) + "m1", " " * (indent + 2) + "m2", " " * indent + "Y" * (w + 1) + "c"]
    after = ["after = 1"]
    return ctx + body + after, len(ctx) + 1, len(ctx) + len(body)


NCTX = int(os.environ.get("VERIF_C29_NCTX", "0"))       # lines before the span (context is shown for primary snippets)
PRIMARY = os.environ.get("VERIF_C29_PRIMARY", "1") == "1"


def _snippet(indent, ctx_indent, pre, w, nctx, primary, lab) -> bool:
    lines, l0, l1 = _mk_source(indent, ctx_indent, pre, w, nctx, 1)
    sm = SourceMap()
    sm.add_file("f", "\n".join(lines))
    start = Loc("f", l0, indent + pre)
    end = Loc("f", l1, indent + pre + w) if SHAPE == 0 else Loc("f", l1, indent + w + 1)
    span = Span(start, end)
    r = DiagnosticsRenderer(sm)
    label = LABELS[lab]
    try:
        r.render_snippet(span, label, l1, primary, prefix_lines=2 if primary else 0)
    except Exception as e:  # noqa: BLE001
        return _fail(f"render_snippet raised {type(e).__name__}: {e}", r.buffer)
    return _check_snippet(r.buffer, lines, span, primary, label, 0) == len(r.buffer)


_GEO = [(i, c, p, w) for i in range(21) for c in (range(21) if NCTX > 0 else (0,)) for p in ((0, 2) if NCTX > 0 else range(4))
        for w in ((1, 2) if NCTX > 0 else (1, 2, 3))]


_SH, _NSH = (int(x) for x in os.environ.get("VERIF_C29_SHARD", "0/1").split("/"))
_GEO = _GEO[_SH::_NSH]


def h_snippet_geometry(case: int) -> bool:
    """
    pre: 0 <= case < len(_GEO)
    post: _
    """
    # the renderer works on str objects, which symbolic execution concretises anyway: the solver picks the case, then the
    # real code runs at native speed (one path per valuation of indentation x context indentation x offset x width)
    indent, ctx_indent, pre, w = _GEO[realize(case)]
    with NoTracing():
        return _snippet(indent, ctx_indent, pre, w, NCTX, PRIMARY, 1)


_TABS = [(lead, mid, ctxtab, prim) for lead in ("", "\t", "\t\t", "  \t", "\t" * 14) for mid in ("", "\t", "a\tb")
         for ctxtab in (False, True) for prim in (False, True)]


def h_snippet_tabs(case: int) -> bool:
    """
    pre: 0 <= case < len(_TABS)
    post: _
    """
    # source lines containing TAB characters (in the indentation, between indentation and span, in the context lines):
    # columns are character offsets, the shown line is still the source line, markers sit under the spanned characters
    lead, mid, ctxtab, primary = _TABS[realize(case)]
    with NoTracing():
        ctx = [("\t" if ctxtab else "    ") + lead + "ctx = 0", lead + "\tother = 1" if ctxtab else lead + "other = 1"]
        first = lead + mid + "XXX" + "b"
        lines = ctx + [first, "after = 1"]
        sm = SourceMap()
        sm.add_file("f", "\n".join(lines))
        c0 = len(lead) + len(mid)
        span = Span(Loc("f", 3, c0), Loc("f", 3, c0 + 3))
        r = DiagnosticsRenderer(sm)
        try:
            r.render_snippet(span, "lab", 3, primary, prefix_lines=2 if primary else 0)
        except Exception as e:  # noqa: BLE001
            return _fail(f"render_snippet raised {type(e).__name__}: {e}", r.buffer)
        return _check_snippet(r.buffer, lines, span, primary, "lab", 0) == len(r.buffer)


_REREG = [(shorter, primary) for shorter in (False, True) for primary in (False, True)]


def h_reregistered(case: int) -> bool:
    """
    pre: 0 <= case < len(_REREG)
    post: _
    """
    # a file name registered a second time with different text (an edited file, a re-used pseudo file name): snippets show the text of
    # the registration in force, also when the old text was shorter than the line the span sits on
    shorter, primary = _REREG[realize(case)]
    with NoTracing():
        lines = ["ctx = 0", "other = 1", "    XXXb", "after = 1"]
        old = ["old0", "old1"] if shorter else ["old0", "old1", "    OLDb", "old3"]
        sm = SourceMap()
        sm.add_file("f", "\n".join(old))
        sm.add_file("f", "\n".join(lines))
        span = Span(Loc("f", 3, 4), Loc("f", 3, 7))
        r = DiagnosticsRenderer(sm)
        try:
            r.render_snippet(span, "lab", 3, primary, prefix_lines=2 if primary else 0)
        except Exception as e:  # noqa: BLE001
            return _fail(f"render_snippet raised {type(e).__name__}: {e}", r.buffer)
        return _check_snippet(r.buffer, lines, span, primary, "lab", 0) == len(r.buffer)


def h_snippet_label(lab: int, deep: bool, primary: bool, ctx: bool) -> bool:
    """
    pre: 0 <= lab < 5
    post: _
    """
    lab, deep, primary, ctx = realize(lab), realize(deep), realize(primary), realize(ctx)
    with NoTracing():
        return _snippet(16 if deep else 2, 14 if deep else 0, 1, 2, 2 if ctx else 0, primary, lab)


_DIA = [(d, c, lab, msg, child, clab, cmsg) for d in (False, True) for c in (False, True) for lab in range(5) for msg in range(5)
        for child in range(3) for clab in (1, 2) for cmsg in range(3)]


_DIA = _DIA[_SH::_NSH]


def h_diagnostic(case: int) -> bool:
    """
    pre: 0 <= case < len(_DIA)
    post: _
    """
    args = _DIA[realize(case)]
    with NoTracing():
        return _diagnostic(*args)


def _diagnostic(deep, ctx, lab, msg, child, clab, cmsg) -> bool:
    indent, pre, w, nctx = (14 if deep else 0), 1, 2, (2 if ctx else 0)
    # whole diagnostic: title line, primary snippet, child snippet (child == 1) or span-less child (child == 2), messages
    lines, l0, l1 = _mk_source(indent, indent, pre, w, nctx, 1)
    sm = SourceMap()
    sm.add_file("f", "\n".join(lines))
    start = Loc("f", l0, indent + pre)
    end = Loc("f", l1, indent + pre + w) if SHAPE == 0 else Loc("f", l1, indent + w + 1)
    span = Span(start, end)
    err = _Err(span, LABELS[lab], MESSAGES[msg])
    cspan = Span(Loc("f", len(lines), 0), Loc("f", len(lines), 5))
    if child == 1:
        err.add_sub_diagnostic(_Sub(cspan, LABELS[clab], MESSAGES[cmsg]))
    elif child == 2:
        err.add_sub_diagnostic(_Sub(None, None, MESSAGES[cmsg] or "note text"))
    r = DiagnosticsRenderer(sm)
    try:
        r.render_diagnostic(err)
    except Exception as e:  # noqa: BLE001
        return _fail(f"render_diagnostic raised {type(e).__name__}: {e}", r.buffer)
    buf = r.buffer
    if not buf or "Title text" not in buf[0] or f"{l0}:{indent + pre}" not in buf[0]:
        return _fail("title line lacks title or location", buf)
    i = _check_snippet(buf, lines, span, True, LABELS[lab], 1)
    if i < 0:
        return False
    if child == 1:
        i = _check_snippet(buf, lines, cspan, False, LABELS[clab], i)
        if i < 0:
            return False
    tail_words = " ".join(buf[i:]).split()
    want = (MESSAGES[msg] or "").split()
    if child == 1 and MESSAGES[cmsg]:
        want += ["Note:"] + MESSAGES[cmsg].split()
    if child == 2:
        want += ["Note:"] + (MESSAGES[cmsg] or "note text").split()
    if tail_words != want:
        return _fail(f"message words differ: {tail_words} vs {want}", buf)
    return all(len(x) <= 80 + 0 for x in buf[i:])


ALPHABET = "ab \n-"


def _okchars(s):
    return all(c in ALPHABET for c in s)


def h_wrap_total(text: str, width: int) -> bool:
    """
    pre: len(text) <= 3 and 1 <= width <= 3 and _okchars(text)
    post: _
    """
    # never raises, whatever the text (incl. empty, blank, only newlines)
    try:
        out = wrap(text, width)
    except Exception as e:  # noqa: BLE001
        return _fail(f"wrap({text!r}, {width}) raised {type(e).__name__}: {e}", [])
    return isinstance(out, list) and len(out) >= 1


def h_wrap_faithful(text: str, width: int) -> bool:
    """
    pre: 1 <= len(text) <= 4 and 2 <= width <= 3 and _okchars(text)
    pre: "-" not in text and all(len(wd) <= width for wd in text.split())
    pre: text.strip() != ""
    post: _
    """
    # words that fit are never split, all of them appear in order, no line is longer than the width
    out = wrap(text, width)
    if " ".join(out).split() != text.split():
        return _fail(f"wrap({text!r}, {width}) = {out}: words changed", [])
    return all(len(x) <= width for x in out)


def h_wrap_breaks_only_at_whitespace(text: str, width: int) -> bool:
    """
    pre: 1 <= len(text) <= 4 and 1 <= width <= 3 and _okchars(text)
    pre: text.strip() != ""
    post: _
    """
    # region of the known finding: a word longer than the width, or a hyphenated word, is broken inside the word
    out = wrap(text, width)
    return " ".join(out).split() == text.split()


def h_wrap_indents(text: str, width: int, a: int, b: int) -> bool:
    """
    pre: 1 <= len(text) <= 3 and 2 <= width <= 3 and _okchars(text) and 0 <= a <= 1 and 0 <= b <= 1
    pre: "-" not in text and all(len(wd) <= width for wd in text.split()) and text.strip() != ""
    post: _
    """
    # indents are added to every line and do not move the break positions
    plain = wrap(text, width)
    ind = wrap(text, width, initial_indent=" " * a, subsequent_indent="." * b)
    return ind == [" " * a + plain[0]] + ["." * b + x for x in plain[1:]]
