"""C16 (program level) — implicit numeric coercions only widen, in every position.
The real check() runs on a grid of programs: expected type (nat / int / float) x form of the actual expression (variables of
each numeric type, literals, comptime expressions) x position (annotated assignment, argument, return value, operator operand
whose result is assigned at the expected type).
  variables:           accepted  <=>  actual <= expected in nat < int < float
  literals / comptime: accepted   =>  the value's least kind <= expected (never a narrowing; whether every widening of a
                                      comptime value is accepted is not demanded)"""
import importlib.util
import os
import sys
import lib.repo_env
lib.repo_env.shim()
import guppylang  # noqa: F401
from guppylang_internals.checker import expr_checker as EC
from guppylang_internals.error import GuppyError
from crosshair.tracers import NoTracing
from crosshair.core import realize

lib.repo_env.assert_repo(EC)
KINDS = ["nat", "int", "float"]
# (expression, least numeric kind it has, exact: True if acceptance must be equivalent to widening)
FORMS = [("vn", 0, True), ("vi", 1, True), ("vf", 2, True), ("1", 0, False), ("-1", 1, False), ("1.5", 2, False), ("comptime(1)", 0, False),
         ("comptime(-1)", 1, False), ("comptime(2.5)", 2, False), ("comptime(1.0)", 2, False), ("comptime(2 ** 63)", 0, False), ("(vi + 1)", 1, True), ("(vn + vn)", 0, True),
         ("(vf * vi)", 2, True), ("(vn + vi)", 1, True),
         # results of calls (the expected type reaches the call through check_call, not through the variable / operator paths)
         ("get_nat()", 0, False), ("get_int()", 1, False), ("get_float()", 2, False), ("ident(vi)", 1, False), ("ident(vf)", 2, False), ("abs(vi)", 1, False),
         ("abs(vf)", 2, False), ("(get_int(), 1)[0]", 1, False)]
POS = ["assign", "argument", "return", "operand"]
CASES = [(e, f, p) for e in range(3) for f in range(len(FORMS)) for p in range(len(POS))]


def _prog(ci, e, f, p):
    exp, form = KINDS[e], FORMS[f][0]
    head = f"@guppy\ndef prog{ci}(vn: nat, vi: int, vf: float) -> "
    if p == 0:
        return head + f"None:\n    x: {exp} = {form}\n\n"
    if p == 1:
        return head + f"None:\n    takes_{exp}({form})\n\n"
    if p == 2:
        return head + f"{exp}:\n    return {form}\n\n"
    return head + f"None:\n    r: {exp} = v{exp[0]} + {form}\n\n"


with NoTracing():
    _src = ["from guppylang import guppy\nfrom guppylang.std.builtins import nat, comptime\n\n"]
    _src.append("T = guppy.type_var('T')\n\n@guppy.declare\ndef ident(x: T) -> T: ...\n\n")
    for k in KINDS:
        _src.append(f"@guppy.declare\ndef takes_{k}(x: {k}) -> None: ...\n\n")
        _src.append(f"@guppy.declare\ndef get_{k}() -> {k}: ...\n\n")
    for ci, (e, f, p) in enumerate(CASES):
        _src.append(_prog(ci, e, f, p))
    _dir = os.environ.get("VERIF_TWIN_DIR") or "/var/tmp"
    _path = os.path.join(_dir, f"c16progs_{os.getpid()}.py")
    with open(_path, "w") as _f:
        _f.write("".join(_src))
    _spec = importlib.util.spec_from_file_location(f"c16progs_{os.getpid()}", _path)
    M = importlib.util.module_from_spec(_spec)
    sys.modules[_spec.name] = M
    _spec.loader.exec_module(M)
LAST_DETAIL = None


def h_program(case: int) -> bool:
    """
    pre: 0 <= case < len(CASES)
    post: _
    """
    global LAST_DETAIL
    ci = realize(case)
    with NoTracing():
        e, f, p = CASES[ci]
        form, kind, exact = FORMS[f]
        try:
            getattr(M, f"prog{ci}").check()
            accepted, why = True, ""
        except GuppyError as err:
            accepted, why = False, type(err.error).__name__
        widening = kind <= e
        desc = f"`{form}` (least kind {KINDS[kind]}) where {KINDS[e]} is expected, position {POS[p]}"
        if accepted and not widening:
            LAST_DETAIL = f"{desc}: ACCEPTED although that narrows"
            return False
        if exact and widening and not accepted:
            LAST_DETAIL = f"{desc}: rejected ({why}) although it only widens"
            return False
        return True
