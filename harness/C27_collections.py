"""C27 — Stack and PriorityQueue follow their reference models.
The method bodies executed are /repo's (guppylang/std/collections/{stack,priority_queue}.py), compiled
unchanged from the current source; Option/array/panic are the Python models of lib/guppy_models.py.
One inductive step from an arbitrary valid pre-state covers histories of any length within capacity."""
import os
import lib.repo_env
from lib.guppy_models import Arr, Opt, Panic, base_ns, load_function, load_struct, nothing, some

K = int(os.environ.get("VERIF_C27_K", "4"))
STACK_PY = "guppylang/src/guppylang/std/collections/stack.py"
PQ_PY = "guppylang/src/guppylang/std/collections/priority_queue.py"

_ns_s = base_ns(MAX_SIZE=K)
Stack = load_struct(STACK_PY, "Stack", _ns_s)
empty_stack = load_function(STACK_PY, "empty_stack", _ns_s)
_ns_q = base_ns(MAX_SIZE=K)
PriorityQueue = load_struct(PQ_PY, "PriorityQueue", _ns_q)
empty_priority_queue = load_function(PQ_PY, "empty_priority_queue", _ns_q)


# ------------------------------------------------------------------ Stack
def mk_stack(end, vals):
    return Stack(Arr([some(vals[i]) if i < end else nothing() for i in range(K)]), end)


def stack_inv(s) -> bool:
    if not (0 <= s.end <= K) or len(s.buf.e) != K:
        return False
    for i in range(K):
        if (i < s.end) != s.buf.e[i].is_some():
            return False
    return True


def stack_list(s):
    return [s.buf.e[i].v[0] for i in range(s.end)]


def _vals(v0, v1, v2, v3, v4, v5, v6):
    return [v0, v1, v2, v3, v4, v5, v6][:K]


def h_stack_push(end: int, v0: int, v1: int, v2: int, v3: int, v4: int, v5: int, v6: int, x: int) -> bool:
    """
    pre: 0 <= end <= K
    post: _
    """
    s = mk_stack(end, _vals(v0, v1, v2, v3, v4, v5, v6))
    model = stack_list(s)
    try:
        s2 = s.push(x)
    except Panic:
        return end == K  # panics exactly when full
    return end < K and stack_inv(s2) and stack_list(s2) == model + [x] and s2.__len__() == end + 1


def h_stack_pop(end: int, v0: int, v1: int, v2: int, v3: int, v4: int, v5: int, v6: int) -> bool:
    """
    pre: 0 <= end <= K
    post: _
    """
    s = mk_stack(end, _vals(v0, v1, v2, v3, v4, v5, v6))
    model = stack_list(s)
    try:
        x, s2 = s.pop()
    except Panic:
        return end == 0
    return end > 0 and x == model[-1] and stack_inv(s2) and stack_list(s2) == model[:-1]


def h_stack_peek_len(end: int, v0: int, v1: int, v2: int, v3: int, v4: int, v5: int, v6: int) -> bool:
    """
    pre: 0 <= end <= K
    post: _
    """
    s = mk_stack(end, _vals(v0, v1, v2, v3, v4, v5, v6))
    model = stack_list(s)
    if s.__len__() != len(model):
        return False
    try:
        x, s2 = s.peek()
    except Panic:
        return end == 0
    return end > 0 and x == model[-1] and stack_inv(s2) and stack_list(s2) == model


def h_stack_next_discard(end: int, v0: int, v1: int, v2: int, v3: int, v4: int, v5: int, v6: int) -> bool:
    """
    pre: 0 <= end <= K
    post: _
    """
    vals = _vals(v0, v1, v2, v3, v4, v5, v6)
    s = mk_stack(end, vals)
    model = stack_list(s)
    try:
        s.discard_empty()
        discarded = True
    except Panic:
        discarded = False
    if discarded != (end == 0):
        return False
    s = mk_stack(end, vals)
    r = s.__next__()
    if end == 0:
        return r.is_nothing()
    if not r.is_some():
        return False
    x, s2 = r.v[0]
    return x == model[-1] and stack_inv(s2) and stack_list(s2) == model[:-1] and s.__iter__() is s


def h_stack_empty() -> bool:
    """
    post: _
    """
    s = empty_stack()
    return stack_inv(s) and s.end == 0 and stack_list(s) == []


def h_stack_history(o0: int, o1: int, o2: int, o3: int, o4: int, x0: int, x1: int, x2: int, x3: int, x4: int) -> bool:
    """
    pre: 0 <= o0 < 3 and 0 <= o1 < 3 and 0 <= o2 < 3 and 0 <= o3 < 3 and 0 <= o4 < 3
    post: _
    """
    # a short history from empty, as a cross-check of the inductive argument (LIFO list model)
    s = empty_stack()
    model: list = []
    for o, x in zip((o0, o1, o2, o3, o4), (x0, x1, x2, x3, x4)):
        try:
            if o == 0:
                s = s.push(x)
                if len(model) >= K:
                    return False
                model.append(x)
            elif o == 1:
                y, s = s.pop()
                if not model or y != model.pop():
                    return False
            else:
                y, s = s.peek()
                if not model or y != model[-1]:
                    return False
        except Panic:
            if o == 0:
                return len(model) == K
            return not model
        if not stack_inv(s) or stack_list(s) != model:
            return False
    return True


# ------------------------------------------------------------------ PriorityQueue
def mk_pq(size, ps):
    return PriorityQueue(Arr([some((ps[i], 100 + i)) if i < size else nothing() for i in range(K)]), size)


def pq_inv(q) -> bool:
    if not (0 <= q.size <= K) or len(q.buf.e) != K:
        return False
    for i in range(K):
        if (i < q.size) != q.buf.e[i].is_some():
            return False
    for i in range(1, q.size):
        if q.buf.e[(i - 1) // 2].v[0][0] > q.buf.e[i].v[0][0]:
            return False
    return True


def pq_items(q):
    return sorted(q.buf.e[i].v[0] for i in range(q.size))


def _remove_one(items, it):
    out = list(items)
    out.remove(it)
    return out


def h_pq_push(size: int, p0: int, p1: int, p2: int, p3: int, p4: int, p5: int, p6: int, prio: int) -> bool:
    """
    pre: 0 <= size <= K
    post: _
    """
    q = mk_pq(size, _vals(p0, p1, p2, p3, p4, p5, p6))
    if not pq_inv(q):
        return True  # not a reachable state
    before = pq_items(q)
    try:
        q2 = q.push(999, prio)
    except Panic:
        return size == K
    return size < K and pq_inv(q2) and q2.size == size + 1 and pq_items(q2) == sorted(before + [(prio, 999)])


def h_pq_pop(size: int, p0: int, p1: int, p2: int, p3: int, p4: int, p5: int, p6: int) -> bool:
    """
    pre: 0 <= size <= K
    post: _
    """
    q = mk_pq(size, _vals(p0, p1, p2, p3, p4, p5, p6))
    if not pq_inv(q):
        return True
    before = pq_items(q)
    try:
        pr, val, q2 = q.pop()
    except Panic:
        return size == 0
    if size == 0:
        return False
    return (pr, val) in before and pr == before[0][0] and pq_inv(q2) and q2.size == size - 1 \
        and pq_items(q2) == _remove_one(before, (pr, val))


def h_pq_peek_len(size: int, p0: int, p1: int, p2: int, p3: int, p4: int, p5: int, p6: int) -> bool:
    """
    pre: 0 <= size <= K
    post: _
    """
    q = mk_pq(size, _vals(p0, p1, p2, p3, p4, p5, p6))
    if not pq_inv(q):
        return True
    before = pq_items(q)
    if q.__len__() != size:
        return False
    try:
        pr, val, q2 = q.peek()
    except Panic:
        return size == 0
    return size > 0 and (pr, val) in before and pr == before[0][0] and pq_inv(q2) and pq_items(q2) == before


def h_pq_next_discard(size: int, p0: int, p1: int, p2: int, p3: int, p4: int, p5: int, p6: int) -> bool:
    """
    pre: 0 <= size <= K
    post: _
    """
    ps = _vals(p0, p1, p2, p3, p4, p5, p6)
    q = mk_pq(size, ps)
    if not pq_inv(q):
        return True
    before = pq_items(q)
    try:
        q.discard_empty()
        discarded = True
    except Panic:
        discarded = False
    if discarded != (size == 0):
        return False
    q = mk_pq(size, ps)
    r = q.__next__()
    if size == 0:
        return r.is_nothing()
    if not r.is_some():
        return False
    (pr, val), q2 = r.v[0]
    return pr == before[0][0] and pq_inv(q2) and pq_items(q2) == _remove_one(before, (pr, val))


def h_pq_empty() -> bool:
    """
    post: _
    """
    q = empty_priority_queue()
    return pq_inv(q) and q.size == 0
