"""C09 — one iteration of the real worklist loops, from an arbitrary state (inductive step).
The loop bodies of ForwardAnalysis.run / BackwardAnalysis.run are sliced out of the *current* source
(`bb = queue.pop()` becomes a parameter: any block may be the popped one), compiled unchanged, and run with
the real LivenessAnalysis / AssignmentAnalysis objects on a local graph around the popped block.
Symbolic: use/assign membership of a variable x (and y) in the block, the current lattice values of the block
and its neighbours, an arbitrary solution S of the dataflow equations, queue membership.
Structure (numbers of neighbours, self-loop, dummy edge, include_unreachable) is fixed per process by env.

Asserted after one iteration:
 (i)   the popped block is stable: value == join(neighbour values) pushed through the transfer function (spec written independently)
 (ii)  if its value changed, every dependant is in the queue
 With an empty queue (i)+(ii) give a solution of the dataflow equations, whatever blocks were popped in whatever
 order.  That it is the least (liveness, maybe-assignment) / greatest (definite assignment) one follows from (i):
 every new value equals the independent spec applied to the neighbours' current values, the spec (union /
 intersection followed by gen/kill) is monotone, and the start values are bottom / top (h_init); h_lattice checks
 the real join/apply_bb against that spec, including distributivity."""
import ast
import os
import lib.repo_env
from lib import astx
from guppylang_internals.cfg import analysis as A
from guppylang_internals.cfg.bb import BB, VariableStats
from crosshair.tracers import NoTracing


def _assignment_analysis(stats, entry, incl):
    # AssignmentAnalysis.__init__ uses the descriptor form set.union(*...), which rejects the shell sets CrossHair
    # substitutes for set(...) results under tracing; every input is concrete here, so construct it untraced
    with NoTracing():
        return A.AssignmentAnalysis(stats, {*entry}, {*entry}, include_unreachable=incl)

lib.repo_env.assert_repo(A)

NN = int(os.environ.get("VERIF_C09_NN", "2"))          # number of ordinary neighbours (succs for bwd, preds for fwd)
SELF = os.environ.get("VERIF_C09_SELF", "0") == "1"    # self-loop
DUMMY = os.environ.get("VERIF_C09_DUMMY", "0") == "1"  # one dummy (never taken) edge
INCL = os.environ.get("VERIF_C09_INCL", "1") == "1"    # include_unreachable
NV = int(os.environ.get("VERIF_C09_NV", "1"))          # variables tracked (1 or 2)
VARS = ["x", "y"][:NV]


def _slice_step(cls, params):
    fd, filename, _ = astx.get_funcdef(cls.run)
    loops = [n for n in fd.body if isinstance(n, ast.While)]
    if len(loops) != 1:
        raise RuntimeError(f"{cls.__name__}.run no longer has exactly one worklist loop")
    loop = loops[0]
    if ast.unparse(loop.test) != "len(queue) > 0":
        raise RuntimeError("worklist loop condition changed shape: " + ast.unparse(loop.test))
    pops = [s for s in loop.body if isinstance(s, ast.Assign) and ast.unparse(s.value) == "queue.pop()"]
    if len(pops) != 1 or ast.unparse(pops[0].targets[0]) != "bb":
        raise RuntimeError("expected exactly one `bb = queue.pop()` in the loop body")
    body = [s for s in loop.body if s is not pops[0]]
    step = ast.FunctionDef(name="step", args=ast.arguments(posonlyargs=[], args=[ast.arg(arg=a) for a in params], kwonlyargs=[],
                                                            kw_defaults=[], defaults=[]),
                           body=body, decorator_list=[], type_params=[])
    ast.copy_location(step, fd)
    init_body = fd.body[: fd.body.index(loop)]
    init_body = [s for s in init_body if not (isinstance(s, ast.Expr) and isinstance(s.value, ast.Constant))]
    init = ast.FunctionDef(name="init", args=ast.arguments(posonlyargs=[], args=[ast.arg(arg="self"), ast.arg(arg="bbs")], kwonlyargs=[],
                                                            kw_defaults=[], defaults=[]),
                           body=init_body + [ast.Return(value=ast.Call(func=ast.Name(id="locals", ctx=ast.Load()), args=[], keywords=[]))],
                           decorator_list=[], type_params=[])
    ast.copy_location(init, fd)
    g = dict(vars(A))
    return astx.compile_funcdef(step, g, filename), astx.compile_funcdef(init, g, filename)


bwd_step, bwd_init = _slice_step(A.BackwardAnalysis, ("self", "queue", "vals_before", "bb"))
fwd_step, fwd_init = _slice_step(A.ForwardAnalysis, ("self", "queue", "vals_before", "vals_after", "bb"))


def mkset(bits):
    return {v for v, b in zip(VARS, bits) if b}


def mkdict(bits, marker):
    return {v: marker for v, b in zip(VARS, bits) if b}


def _graph():
    bb = BB(0, None)
    nb = [BB(1 + i, None) for i in range(NN)]
    other = BB(9, None)  # a dependant on the other side
    dummy = BB(8, None)
    return bb, nb, other, dummy


# =============================================================================== liveness (backward)
def h_liveness_step(u0: bool, u1: bool, a0: bool, a1: bool, c0: bool, c1: bool,
                    n00: bool, n01: bool, n10: bool, n11: bool, n20: bool, n21: bool, n30: bool, n31: bool,
                    inq: bool) -> bool:
    """
    post: _
    """
    bb, succs, pred, dsucc = _graph()
    bb.predecessors = [pred]
    pred.successors = [bb]
    for s in succs:
        bb.successors.append(s)
        s.predecessors.append(bb)
    if SELF:
        bb.successors.append(bb)
        bb.predecessors.append(bb)
    dpred = BB(7, None)
    if DUMMY:
        bb.dummy_successors.append(dsucc)
        dsucc.dummy_predecessors.append(bb)
        bb.dummy_predecessors.append(dpred)
        dpred.dummy_successors.append(bb)
    blocks = [bb, *succs, pred, dsucc, dpred]
    stats = {b: VariableStats() for b in blocks}
    used, assigned = mkset([u0, u1]), mkset([a0, a1])
    stats[bb] = VariableStats(assigned=mkdict([a0, a1], None), used=mkdict([u0, u1], None))
    an = A.LivenessAnalysis(stats, initial={}, include_unreachable=INCL)
    nbits = [[n00, n01], [n10, n11], [n20, n21], [n30, n31]]
    vals = {b: {} for b in blocks}
    vals[bb] = mkdict([c0, c1], bb)
    neigh = list(succs) + ([dsucc] if DUMMY else [])
    for i, s in enumerate(neigh):
        vals[s] = mkdict(nbits[i], s)
    eff = list(succs) + ([bb] if SELF else []) + ([dsucc] if (DUMMY and INCL) else [])

    def spec_in(outs):
        o = {x for o_ in outs for x in o_}
        return used | (o - assigned)

    queue = {pred} if inq else {*()}
    old = {*vals[bb].keys()}
    bwd_step(an, queue, vals, bb)
    new = {*vals[bb].keys()}
    exp = spec_in([{*vals[s].keys()} if s is not bb else old for s in eff])
    if new != exp:
        return False
    # every block whose equation reads bb's value: predecessors, and never-taken predecessors too when those
    # edges are part of the analysis
    dependants = list(bb.predecessors) + (list(bb.dummy_predecessors) if INCL else [])
    if new != old and not all(p in queue for p in dependants):
        return False
    return True


# =============================================================================== assignment (forward)
def h_assignment_step(a0: bool, a1: bool, e0: bool, e1: bool,
                      cd0: bool, cd1: bool, cm0: bool, cm1: bool,
                      pd00: bool, pd01: bool, pm00: bool, pm01: bool,
                      pd10: bool, pd11: bool, pm10: bool, pm11: bool,
                      pd20: bool, pd21: bool, pm20: bool, pm21: bool,
                      pd30: bool, pd31: bool, pm30: bool, pm31: bool,
                      inq: bool) -> bool:
    """
    post: _
    """
    bb, preds, succ, dpred = _graph()
    bb.successors = [succ]
    succ.predecessors = [bb]
    for p in preds:
        bb.predecessors.append(p)
        p.successors.append(bb)
    if SELF:
        bb.successors.append(bb)
        bb.predecessors.append(bb)
    dsucc = BB(7, None)
    if DUMMY:
        bb.dummy_predecessors.append(dpred)
        dpred.dummy_successors.append(bb)
        bb.dummy_successors.append(dsucc)
        dsucc.dummy_predecessors.append(bb)
    blocks = [bb, *preds, succ, dpred, dsucc]
    stats = {b: VariableStats() for b in blocks}
    assigned = mkset([a0, a1])
    stats[bb] = VariableStats(assigned=mkdict([a0, a1], None))
    # make sure every tracked variable is in all_vars (some block assigns it)
    stats[succ] = VariableStats(assigned={v: None for v in VARS})
    entry = mkset([e0, e1])
    an = _assignment_analysis(stats, entry, INCL)
    pbits = [([pd00, pd01], [pm00, pm01]), ([pd10, pd11], [pm10, pm11]), ([pd20, pd21], [pm20, pm21]), ([pd30, pd31], [pm30, pm31])]
    neigh = list(preds) + ([dpred] if DUMMY else [])
    after = {b: ({*VARS}, {*()}) for b in blocks}
    before = {b: ({*VARS}, {*()}) for b in blocks}
    for i, p in enumerate(neigh):
        after[p] = (mkset(pbits[i][0]), mkset(pbits[i][1]))
    after[bb] = (mkset([cd0, cd1]), mkset([cm0, cm1]))
    eff = list(preds) + ([bb] if SELF else []) + ([dpred] if (DUMMY and INCL) else [])
    x = VARS[0]

    def spec_join(vs):
        if not vs:
            return {*entry}, {*entry}
        return set.intersection(*[d for d, _ in vs]), set.union(*[m for _, m in vs])

    def spec_apply(v):
        return v[0] | assigned, v[1] | assigned

    queue = {dpred} if inq else {*()}
    old_after = ({*after[bb][0]}, {*after[bb][1]})
    snapshot = {p: ({*after[p][0]}, {*after[p][1]}) for p in blocks}
    fwd_step(an, queue, before, after, bb)
    exp_before = spec_join([snapshot[p] for p in eff])
    exp_after = spec_apply(exp_before)
    if ({*before[bb][0]}, {*before[bb][1]}) != exp_before:
        return False
    if ({*after[bb][0]}, {*after[bb][1]}) != exp_after:
        return False
    dependants = list(bb.successors) + (list(bb.dummy_successors) if INCL else [])
    if exp_after != old_after and not all(s in queue for s in dependants):
        return False
    # neighbours' cached values are not touched
    return all(({*after[p][0]}, {*after[p][1]}) == snapshot[p] for p in blocks if p is not bb)


# =============================================================================== base case + lattice laws
def h_init(reach0: bool, reach1: bool, reach2: bool, a0: bool, a1: bool, a2: bool, u0: bool, u1: bool, u2: bool,
           e: bool, incl: bool) -> bool:
    """
    post: _
    """
    bbs = [BB(i, None) for i in range(3)]
    for b, r in zip(bbs, (reach0, reach1, reach2)):
        b.reachable = r
    bbs[0].successors.append(bbs[1])
    bbs[1].predecessors.append(bbs[0])
    stats = {b: VariableStats(assigned={"x": None} if a else {}, used={"x": None} if u else {})
             for b, a, u in zip(bbs, (a0, a1, a2), (u0, u1, u2))}
    entry = {"x"} if e else {*()}
    fa = _assignment_analysis(stats, entry, incl)
    st = fwd_init(fa, list(bbs))
    considered = [b for b in bbs if incl or b.reachable]
    if set(st["queue"]) != set(considered) or set(st["vals_before"]) != set(considered):
        return False
    anyx = a0 or a1 or a2 or e
    for b in considered:
        d, m = st["vals_before"][b]
        if ("x" in d) != anyx or ("x" in m) != e:  # top for definite assignment, entry set for maybe
            return False
        if st["vals_after"][b] != fa.apply_bb(st["vals_before"][b], b):
            return False
    la = A.LivenessAnalysis(stats, initial={}, include_unreachable=incl)
    sb = bwd_init(la, list(bbs))
    return set(sb["queue"]) == set(bbs) and all(sb["vals_before"][b] == {} for b in bbs)


def _S(b):
    return {v for v, k in zip(["x", "y"], b) if k}


def h_lattice_live(p0: bool, p1: bool, q0: bool, q1: bool, r0: bool, r1: bool, a0: bool, a1: bool, u0: bool, u1: bool) -> bool:
    """
    post: _
    """
    S = _S
    b0 = BB(0, None)
    stats = {b0: VariableStats(assigned={v: None for v in S([a0, a1])}, used={v: None for v in S([u0, u1])})}
    la = A.LivenessAnalysis(stats, initial={}, include_unreachable=True)
    P, Q, R = ({v: 1 for v in S([p0, p1])}, {v: 2 for v in S([q0, q1])}, {v: 3 for v in S([r0, r1])})
    k = lambda d: set(d.keys())  # noqa: E731
    if k(la.join(P, Q)) != k(P) | k(Q) or k(la.join(P, Q)) != k(la.join(Q, P)) or k(la.join()) != set():
        return False
    if k(la.join(la.join(P, Q), R)) != k(la.join(P, la.join(Q, R))) or k(la.join(P, P)) != k(P):
        return False
    if la.eq(P, Q) != (k(P) == k(Q)):
        return False
    # transfer function: distributes over join (hence monotone)
    if k(la.apply_bb(la.join(P, Q), b0)) != k(la.join(la.apply_bb(P, b0), la.apply_bb(Q, b0))):
        return False
    return k(la.apply_bb(P, b0)) == S([u0, u1]) | (k(P) - S([a0, a1]))


def h_lattice_assign(p0: bool, p1: bool, q0: bool, q1: bool, a0: bool, a1: bool,
                     pm0: bool, pm1: bool, qm0: bool, qm1: bool, e0: bool) -> bool:
    """
    post: _
    """
    S = _S
    b0 = BB(0, None)
    stats = {b0: VariableStats(assigned={v: None for v in S([a0, a1])})}
    entry = S([e0, False])
    fa = _assignment_analysis(stats, entry, True)
    X, Y = (S([p0, p1]), S([pm0, pm1])), (S([q0, q1]), S([qm0, qm1]))
    j = fa.join(X, Y)
    if j != (X[0] & Y[0], X[1] | Y[1]) or fa.join(X, Y) != fa.join(Y, X) or fa.join(X, X) != X:
        return False
    if fa.join() != (entry, entry):
        return False
    ax = fa.apply_bb(X, b0)
    if ax != (X[0] | S([a0, a1]), X[1] | S([a0, a1])):
        return False
    return fa.apply_bb(fa.join(X, Y), b0) == fa.join(fa.apply_bb(X, b0), fa.apply_bb(Y, b0)) and fa.eq(X, Y) == (X == Y)
