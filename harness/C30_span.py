"""C30 — Span / Loc interval semantics.  Real code: guppylang_internals/span.py.
Symbolic: all line/column numbers (unbounded mathematical ints, >= 0), file equal/different."""
import lib.repo_env  # noqa: F401
from guppylang_internals import span as _span_mod
from guppylang_internals.span import Loc, Span

lib.repo_env.assert_repo(_span_mod)


def _mk(f: str, l1: int, c1: int, l2: int, c2: int) -> Span:
    return Span(Loc(f, l1, c1), Loc(f, l2, c2))


def h_contains_span(al1: int, ac1: int, al2: int, ac2: int, bl1: int, bc1: int, bl2: int, bc2: int) -> bool:
    """
    pre: (al1, ac1) <= (al2, ac2) and (bl1, bc1) <= (bl2, bc2)
    pre: min(al1, ac1, al2, ac2, bl1, bc1, bl2, bc2) >= 0
    post: _
    """
    a = _mk("f", al1, ac1, al2, ac2)
    b = _mk("f", bl1, bc1, bl2, bc2)
    spec = (bl1, bc1) <= (al1, ac1) and (al2, ac2) <= (bl2, bc2)
    return (a in b) == spec


def h_contains_loc(l: int, c: int, bl1: int, bc1: int, bl2: int, bc2: int) -> bool:
    """
    pre: (bl1, bc1) <= (bl2, bc2)
    pre: min(l, c, bl1, bc1, bl2, bc2) >= 0
    post: _
    """
    b = _mk("f", bl1, bc1, bl2, bc2)
    spec = (bl1, bc1) <= (l, c) <= (bl2, bc2)
    return (Loc("f", l, c) in b) == spec


def h_intersection(al1: int, ac1: int, al2: int, ac2: int, bl1: int, bc1: int, bl2: int, bc2: int) -> bool:
    """
    pre: (al1, ac1) <= (al2, ac2) and (bl1, bc1) <= (bl2, bc2)
    pre: min(al1, ac1, al2, ac2, bl1, bc1, bl2, bc2) >= 0
    post: _
    """
    a = _mk("f", al1, ac1, al2, ac2)
    b = _mk("f", bl1, bc1, bl2, bc2)
    r = a & b
    lo = max((al1, ac1), (bl1, bc1))
    hi = min((al2, ac2), (bl2, bc2))
    if lo < hi:  # genuinely overlapping: the overlap interval, exactly
        return r is not None and (r.start.line, r.start.column) == lo and (r.end.line, r.end.column) == hi \
            and r.start.file == "f" and (a & b) == (b & a)
    if lo > hi:  # disjoint
        return r is None and (b & a) is None
    # touching: the statement allows None or the empty overlap
    return r is None or ((r.start.line, r.start.column) == lo and (r.end.line, r.end.column) == hi)


def h_other_file(al1: int, ac1: int, al2: int, ac2: int, bl1: int, bc1: int, bl2: int, bc2: int) -> bool:
    """
    pre: (al1, ac1) <= (al2, ac2) and (bl1, bc1) <= (bl2, bc2)
    pre: min(al1, ac1, al2, ac2, bl1, bc1, bl2, bc2) >= 0
    post: _
    """
    a = _mk("f", al1, ac1, al2, ac2)
    b = _mk("g", bl1, bc1, bl2, bc2)
    return (a in b) is False and (b in a) is False and (a & b) is None and (b & a) is None \
        and (Loc("f", al1, ac1) in b) is False


def h_wellformed(l1: int, c1: int, l2: int, c2: int) -> bool:
    """
    pre: min(l1, c1, l2, c2) >= 0
    post: _
    """
    # constructing a span with start after end must be refused; length of a one-line span is its width
    try:
        s = _mk("f", l1, c1, l2, c2)
    except Exception:
        return (l1, c1) > (l2, c2)
    if (l1, c1) > (l2, c2):
        return False
    if l1 == l2:
        return len(s) == c2 - c1
    return True
