"""C21 (lowering level) — a @guppy.comptime function computes what the same body computes as a @guppy function.
Every body of the corpus is defined twice in one module, once under each decorator.  Both definitions go through /repo's real
pipeline (check; for the comptime one: tracing — tracing/function.py trace_function / trace_call, object.py, unpacking.py,
builtins_mock.py — and for both: CompilerContext.compile), and the two emitted HUGRs are interpreted by lib/e7.py on the same
symbolic arguments and the same symbolic results of the opaque calls.  Returned values and event traces must agree; a body that
lowers under one decorator and raises under the other is a disagreement as well."""
import importlib.util
import json
import os
import sys
import lib.repo_env
lib.repo_env.shim()
from lib import e4, e4_corpus, e5, e7
from guppylang_internals.error import GuppyError
from crosshair.tracers import NoTracing
from crosshair.core import realize

BATCH = [int(i) for i in os.environ.get("VERIF_C21_BATCH", "0").split(",")]
REGION = os.environ.get("VERIF_C21_REGION") or None
FUEL = 3000
XLO, XHI, RMAX = -3, 4, 1000

# (return annotation, body, tag) — tag None: main claim; otherwise the key suffix of a known finding the body lies in
BODIES = [
    ("int", "return (x + y) * 2 - x // 3 + y % 5 - (-x)", None),
    ("int", "a = x * y\n    b = a - 7\n    return a * b + (b ^ 5) + (a & 12) + (a | 3)", None),
    ("int", "return 2 + x - (3 - y) + 4 * x + x * 5 - (7 // 2) + (y // 4) + (9 % 4) + (x % 3)", None),
    ("int", "return (2 ** 3) + (x << 2) + (1 << 3) + (5 & x) + (x | 8) + (6 ^ y)", None),
    ("float", "return x * 1.5 + y - 0.5 * x + 2.0 / 4 + y / 2.0", None),
    ("float", "return 1.5 + x + (y - 2.5) + float(x) * 2 + float(3)", None),
    ("bool", "return (x < y) & (y <= 5) | (x == 3) ^ (2 > y)", None),
    ("bool", "return (1 < x) | (y != 2) & (x >= -1) | (3 == y)", None),
    ("int", "return f(x) + g(y) * h(2) - f(g(1))", None),
    ("int", "a = f(1)\n    emit(a)\n    b = g(a + x)\n    emit(b + 1)\n    return h(a - b)", None),
    ("int", "t = (x, f(y))\n    a, b = t\n    u = (b, (a, 3))\n    return t[0] + t[1] + u[1][0] + u[1][1]", None),
    ("tuple[int, int]", "return y, x + 1", None),
    ("tuple[int, bool, float]", "return x - y, x < y, x * 0.5", None),
    ("int", "s = 0\n    for i in range(3):\n        s += f(i) * (i + 1)\n    return s", None),
    ("int", "xs = array(x, y, 3)\n    return xs[0] + xs[1] * 10 + xs[2] * 100 + len(xs)", None),
    ("int", "xs = array(x, y, 3)\n    xs[1] = f(0)\n    xs[0] += 2\n    return xs[0] + xs[1] * 10 + xs[2] * 100", None),
    ("int", "xs = array(x, y, x + y)\n    r = bump(xs, 1)\n    return r + xs[0] + xs[1] * 10 + xs[2] * 100", None),
    ("int", "ys = mk3(x)\n    r = bump(ys, 2)\n    return r + ys[0] + ys[1] * 10 + ys[2] * 100", None),
    ("int", "p = Pair(x, f(y))\n    q = Pair(p.b, p.a + 1)\n    return p.a + q.a * 10 + q.b * 100", None),
    ("int", "return int(x * 0.5 + 0.25) + int(True) + int(y)", None),
    ("float", "return abs(x) + abs(y * 1.5) + abs(-3)", None),
    ("int", "a = 1\n    b = 1.0\n    return int(x * a + y * b) + int((x > 0) & True) + (a + 1) * x", None),
    ("float", "return y * -0.0 + x * 0.0 + 1.0", None),
    # (the next three were defects of /repo, found here and repaired: see known_findings.json)
    ("int", "xs = array(x, y, 3)\n    old = xs[1]\n    r = bump(xs, 1)\n    return old * 1000 + r", None),
    ("int", "ys = array(1, 2, 3)\n    r = bump(ys, 0)\n    return ys[1] + x + r", None),
    ("tuple[int]", "return (x,)", None),
    ("int", "m = array(array(x, 1, 2), array(y, 3, 4))\n    a = m[0][0]\n    r = bump(m[1], 0)\n    b = m[1][0]\n    s = bump(m[0], 0)\n    return a + b * 10 + r * 100 + s * 1000 + m[0][0] * 10000", None),
    ("int", "p = Pair(x, y)\n    t = (p, array(x, y, 5))\n    r = bump(t[1], 2)\n    return t[0].a + t[1][2] * 10 + r * 100", None),
    # a traced nat next to Python int constants (the constant stays an int: the result is signed)
    ("bool", "n = mk_nat(x)\n    return n - 5 < 0", None),
    ("int", "n = mk_nat(y)\n    return (7 - n) + (n - 9) * 2", None),
    ("int", "n = mk_nat(y)\n    m = n + mk_nat(x)\n    return int(m) + int(n > m) + int(3 > n)", None),
    # ---- inside a known finding
    ("int", "return cfoo(3, x) + cfoo(2, y)", "python-int-argument-for-nat-parameter"),
]
# bodies with bitwise operators, shifts, powers or float arithmetic on the inputs: the solver enumerates x and y over a small box instead of
# carrying them symbolically through bit-vector / floating-point terms (which does not finish); they make no opaque calls
import re as _re
ENUM = {i for i, (_r, _b, _t) in enumerate(BODIES) if _re.search(r"\d\.\d|<<|\*\*|\^|&|\||float\(|abs\(", _b) and not _re.search(r"\b[fgh]\(|mk3|bump|mk_nat|cfoo", _b)}
YMAX = 4 if any(i in ENUM for i in BATCH) else 1000
IDX = [i for i in BATCH if i < len(BODIES) and ((BODIES[i][2] is None) if REGION is None else (BODIES[i][2] == REGION))]
NB = len(IDX)
_dir = os.environ.get("VERIF_TWIN_DIR") or "/var/tmp"
_tag = f"{BATCH[0]}-{BATCH[-1]}x{len(BATCH)}" + (f"_{REGION}" if REGION else "")


def _module_text():
    out = [e4_corpus.HEADER, "from guppylang.std.builtins import nat, comptime\n\n",
           "@guppy\ndef cfoo(n: nat @ comptime, x: int) -> int:\n    return x + int(n)\n\n",
           "@guppy\ndef mk_nat(a: int) -> nat:\n    return nat(abs(a))\n\n"]
    for i in IDX:
        ret, body, _ = BODIES[i]
        for deco, nm in (("@guppy", "g"), ("@guppy.comptime", "c")):
            out.append(f"{deco}\ndef {nm}{i}(x: int, y: int) -> {ret}:\n    {body}\n\n")
    return "".join(out)


_path = os.path.join(_dir, f"c21mod_{_tag}_{os.getpid()}.py")
with open(_path, "w") as _f:
    _f.write(_module_text())
_spec = importlib.util.spec_from_file_location(f"c21mod_{os.getpid()}", _path)
MOD = importlib.util.module_from_spec(_spec)
sys.modules[_spec.name] = MOD
_spec.loader.exec_module(MOD)


def _lower(defn):
    try:
        h, fn = e7.lower(defn)
        return ("ok", e7.H(h), fn)
    except GuppyError as e:
        return ("rejected", type(e.error).__name__, str(getattr(e.error, "rendered_span_label", ""))[:120])
    except Exception as e:  # noqa: BLE001
        return ("raised", type(e).__name__, str(e)[:160])


ENTRIES = [(_lower(getattr(MOD, f"g{i}")), _lower(getattr(MOD, f"c{i}"))) for i in IDX]
UNSUPPORTED: dict = {}
OUTSIDE: dict = {}
LAST_DETAIL = None
import atexit


def _dump():
    try:
        with open(os.path.join(_dir, f"c21report_{_tag}.json"), "w") as f:
            json.dump({"unsupported": {str(k): v for k, v in UNSUPPORTED.items()}, "paths_outside": OUTSIDE,
                       "lowered_both": sum(a[0] == "ok" and b[0] == "ok" for a, b in ENTRIES), "bodies": len(ENTRIES),
                       "guppy_side_not_lowered": [[IDX[k], a[0], a[1]] for k, (a, b) in enumerate(ENTRIES) if a[0] != "ok"]}, f)
    except Exception:  # noqa: BLE001
        pass


atexit.register(_dump)


def _run(side, args, rec):
    try:
        return ("ret", e7.run(side[1], side[2], args, rec, FUEL))
    except e4.Panic as p:
        return ("panic", str(p))
    except ZeroDivisionError:
        return ("raises", "ZeroDivisionError")
    except (e5.Overflow, e5.KnownRegion, e5.OutOfFuel, e7.OutsideIndex) as o:
        return ("outside", type(o).__name__)
    except e5.Unsupported as u:
        return ("unsupported", str(u))
    except (TypeError, AttributeError, IndexError, KeyError, ValueError) as e:
        return ("ill-formed", type(e).__name__)


def h_same(which: int, x: int, y: int, r0: int, r1: int, r2: int, r3: int, r4: int, r5: int) -> bool:
    """
    pre: 0 <= which < NB
    pre: XLO <= x <= XHI and -YMAX <= y <= YMAX
    pre: (-RMAX <= r0) & (r0 <= RMAX) & (-RMAX <= r1) & (r1 <= RMAX) & (-RMAX <= r2) & (r2 <= RMAX) & (-RMAX <= r3) & (r3 <= RMAX) & (-RMAX <= r4) & (r4 <= RMAX) & (-RMAX <= r5) & (r5 <= RMAX)
    post: _
    """
    global LAST_DETAIL
    k = 0
    for i in range(NB):
        if which == i:
            k = i
    g, c = ENTRIES[k]
    src = BODIES[IDX[k]][1]
    if IDX[k] in ENUM:
        x, y = realize(x), realize(y)
    if g[0] != "ok":
        return True        # the @guppy version itself is not accepted / lowered: nothing to compare (reported)
    if c[0] != "ok":
        LAST_DETAIL = f"body #{IDX[k]}: lowers as @guppy, but as @guppy.comptime it is {c[0]} ({c[1]}: {c[2]})\n    {src}"
        return False
    rets = [r0, r1, r2, r3, r4, r5]
    ra, rb = e4.Rec(rets), e4.Rec(rets)
    a = _run(g, (x, y), ra)
    b = _run(c, (x, y), rb)
    for o in (a, b):
        if o[0] == "unsupported":
            with NoTracing():
                UNSUPPORTED[IDX[k]] = o[1]
            return True
    if a[0] == "outside" or b[0] == "outside":
        if a[0] == b[0]:
            with NoTracing():
                OUTSIDE[a[1]] = OUTSIDE.get(a[1], 0) + 1
            return True
    if a != b or ra.trace != rb.trace:
        LAST_DETAIL = f"body #{IDX[k]}: @guppy {a} with events {ra.trace}; @guppy.comptime {b} with events {rb.trace}\n    {src}"
        return False
    return True
