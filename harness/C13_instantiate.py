"""C13 — generic instantiation and monomorphisation bookkeeping preserve meaning (type level).
Real code: tys/ty.py (FunctionType.instantiate_partial / instantiate / unquantified, StructType over Instantiator),
tys/subst.py (Instantiator, Substituter), tys/param.py (TypeParam / ConstParam .with_idx / .to_bound / .instantiate_bounds /
.to_existential), compiler/core.py (require_monomorphization, partially_monomorphize_args, compile_variable_idx).
A generic signature over 3 parameters (kinds fixed per process: type / nat const / const whose type is an earlier type
parameter) mentions every parameter in its inputs and output.  Solver-chosen: which parameters are instantiated first
(mask), with which arguments, in which shapes the parameters occur.  Laws (the executable form of "a copy with the arguments
substituted textually"):
  L1  partial then rest  ==  all at once          L2  remaining parameters are renumbered 0..k-1 in order, keep their names,
  L3  unquantified + solution == instantiate          and every bound variable of the result refers to one of them
  L4  partially_monomorphize_args splits the arguments into (monomorphised, remaining) consistently with
      require_monomorphization after instantiation, remaining order preserved, compile_variable_idx is the order-preserving
      bijection onto range(len(remaining))"""
import itertools
import os
import lib.repo_env
lib.repo_env.shim()
import guppylang  # noqa: F401
from guppylang_internals.tys import ty as TY, subst as SB, param as PM
from guppylang_internals.compiler import core as CC
from guppylang_internals.tys.ty import (BoundTypeVar, FuncInput, FunctionType, InputFlags, NoneType, NumericType, TupleType)
from guppylang_internals.tys.param import ConstParam, TypeParam
from guppylang_internals.tys.const import BoundConstVar, ConstValue
from guppylang_internals.tys.arg import ConstArg, TypeArg
from guppylang_internals.tys.builtin import array_type, option_type, bool_type
from guppylang_internals.tys.subst import Substituter
from crosshair.tracers import NoTracing
from crosshair.core import realize

lib.repo_env.assert_repo(TY, SB, PM, CC)
INT, NAT, FLT = (NumericType(k) for k in (NumericType.Kind.Int, NumericType.Kind.Nat, NumericType.Kind.Float))
KINDS = os.environ.get("VERIF_C13_KINDS", "TTT")     # per parameter: T type, N nat const, D const whose type is parameter 0 (a type)
CLOSED_T = [NAT, FLT, TupleType([INT, FLT]), NoneType(), option_type(NAT)]
LAST_DETAIL = None


_BOUNDS = {"T": (False, False), "A": (True, False), "B": (False, True), "E": (True, True)}    # type parameters by (must be copyable, must be droppable)


def mkparams():
    ps = []
    for i, k in enumerate(KINDS):
        if k in _BOUNDS:
            c, d = _BOUNDS[k]
            ps.append(TypeParam(i, f"T{i}", c, d))
        elif k == "N":
            ps.append(ConstParam(i, f"n{i}", NAT))
        else:
            c0, d0 = _BOUNDS[KINDS[0]]
            ps.append(ConstParam(i, f"d{i}", BoundTypeVar("T0", 0, c0, d0)))
    return ps


def mention(p, shape):
    """a type that mentions parameter p"""
    if isinstance(p, TypeParam):
        tv = p.to_bound().ty
        return [tv, option_type(tv), TupleType([tv, INT])][shape]
    cv = p.to_bound().const
    if p.ty == NAT:
        return [array_type(INT, cv), array_type(FLT, cv), TupleType([array_type(INT, cv), INT])][shape]
    # a const of type T0 can only be carried by a type that takes consts; use an array length position when the type is nat later
    return [TupleType([INT]), TupleType([FLT]), NoneType()][shape]   # (not mentioned: such consts occur as comptime values only)


def arg_for(p, sel, t0):
    if isinstance(p, TypeParam):
        return TypeArg(CLOSED_T[sel] if sel == 0 or p.must_be_copyable else array_type(INT, 2))   # (a non-copyable argument only where the bound allows it)
    if p.ty == NAT:
        return ConstArg(ConstValue(NAT, sel))
    # const of type T0: its value must have the type chosen for T0
    return ConstArg(ConstValue(t0, sel))


def args_for(ps, sels):
    first = arg_for(ps[0], sels[0], None)
    t0 = first.ty if isinstance(first, TypeArg) else None
    return [first] + [arg_for(p, s, t0) for p, s in zip(ps[1:], sels[1:])]


_SHAPES3 = [(0, 1, 2), (1, 2, 0), (2, 0, 1), (0, 0, 0), (1, 1, 1), (2, 2, 2), (0, 2, 1), (2, 1, 0)]   # every shape at every position
_CASES = [(shapes, mask, sels) for shapes in _SHAPES3 for mask in itertools.product((False, True), repeat=3)
          for sels in itertools.product(range(2), repeat=3)]
_MONO_CASES = [((0, 0, 0), (False, False, False), sels) for sels in itertools.product(range(2), repeat=3)]
_SH, _NSH = (int(x) for x in os.environ.get("VERIF_C13_SHARD", "0/1").split("/"))
_CASES = _CASES[_SH::_NSH]


def _sig(ps, shapes):
    ins = [FuncInput(mention(p, s), InputFlags.NoFlags) for p, s in zip(ps, shapes)]
    out = TupleType([mention(p, 0) for p in ps])
    return FunctionType(ins, out, ps)


def h_laws(case: int) -> bool:
    """
    pre: 0 <= case < len(_CASES)
    post: _
    """
    global LAST_DETAIL
    shapes, mask, sels = _CASES[realize(case)]
    with NoTracing():
        ps = mkparams()
        f = _sig(ps, shapes)
        full = args_for(ps, sels)
        if "D" in KINDS and mask[0] is False and any(m for k, m in zip(KINDS, mask) if k == "D"):
            return True   # a const of type T0 cannot be supplied before T0 itself (ill-formed instantiation)
        partial = [a if m else None for a, m in zip(full, mask)]
        g = f.instantiate_partial(partial)
        # L2
        rem = [p for p, m in zip(ps, mask) if not m]
        if [p.idx for p in g.params] != list(range(len(rem))) or [p.name for p in g.params] != [p.name for p in rem]:
            LAST_DETAIL = f"L2: remaining parameters {[(p.idx, p.name) for p in g.params]} after instantiating {mask} of {[p.name for p in ps]}"
            return False
        for gp, rp in zip(g.params, rem):
            if isinstance(rp, TypeParam) and (gp.must_be_copyable, gp.must_be_droppable) != (rp.must_be_copyable, rp.must_be_droppable):
                LAST_DETAIL = f"L2: parameter {rp.name} had bounds (copyable={rp.must_be_copyable}, droppable={rp.must_be_droppable}), after re-indexing ({gp.must_be_copyable}, {gp.must_be_droppable})"
                return False
        for v in g.bound_vars | set().union(*[i.ty.bound_vars for i in g.inputs]) | g.output.bound_vars:
            if not (0 <= v.idx < len(rem)) or v.display_name != rem[v.idx].name:
                LAST_DETAIL = f"L2: bound variable {v} does not refer to a remaining parameter {[p.name for p in rem]}"
                return False
            if isinstance(rem[v.idx], TypeParam) and (v.copyable, v.droppable) != (rem[v.idx].must_be_copyable, rem[v.idx].must_be_droppable):
                LAST_DETAIL = f"L2: bound variable {v} carries bounds different from its parameter {rem[v.idx]}"
                return False
        # L1
        rest = [a for a, m in zip(full, mask) if not m]
        lhs, rhs = g.instantiate(rest), f.instantiate(full)
        if lhs != rhs or lhs.params or lhs.bound_vars:
            LAST_DETAIL = f"L1: partial{mask} then rest gives {lhs}, all at once gives {rhs}"
            return False
        # expected result written out by hand: the signature built from the arguments directly
        want_ins = []
        for p, s, a in zip(ps, shapes, full):
            if isinstance(p, TypeParam):
                tv = a.ty
                want_ins.append([tv, option_type(tv), TupleType([tv, INT])][s])
            elif p.ty == NAT:
                want_ins.append([array_type(INT, a.const), array_type(FLT, a.const), TupleType([array_type(INT, a.const), INT])][s])
            else:
                want_ins.append([TupleType([INT]), TupleType([FLT]), NoneType()][s])
        if [i.ty for i in rhs.inputs] != want_ins:
            LAST_DETAIL = f"instantiate{[str(a) for a in full]} of {f} gives inputs {[str(i.ty) for i in rhs.inputs]}, textual substitution gives {[str(t) for t in want_ins]}"
            return False
        # L3
        unq, evars = f.unquantified()
        sol = {}
        for v, a in zip(evars, full):
            sol[v] = a.ty if isinstance(a, TypeArg) else a.const
        via = FunctionType([FuncInput(i.ty.substitute(sol), i.flags) for i in unq.inputs], unq.output.substitute(sol))
        if [i.ty for i in via.inputs] != [i.ty for i in rhs.inputs] or via.output != rhs.output:
            LAST_DETAIL = f"L3: unquantified + solution gives {via}, instantiate gives {rhs}"
            return False
        return True


class _Ctx:
    current_mono_args = None


def h_monomorphize(case: int) -> bool:
    """
    pre: 0 <= case < len(_MONO_CASES)
    post: _
    """
    global LAST_DETAIL
    shapes, mask, sels = _MONO_CASES[realize(case)]
    with NoTracing():
        ps = mkparams()
        full = args_for(ps, sels)
        mono, rem = CC.partially_monomorphize_args(ps, full, _Ctx())
        # which parameters need monomorphisation *after* this instantiation: consts whose (instantiated) type is not nat, and the
        # type parameters their declared type mentions
        need = set()
        for p, a in zip(ps, full):
            if isinstance(p, ConstParam) and p.ty != NAT:
                need.add(0)                       # the type parameter T0 it depends on
                if a.const.ty != NAT:
                    need.add(p.idx)
        got = {i for i, m in enumerate(mono) if m is not None}
        if got != need:
            LAST_DETAIL = f"monomorphised positions {sorted(got)} for kinds {KINDS} with {[str(a) for a in full]}, expected {sorted(need)}"
            return False
        if any(mono[i] != full[i] for i in got) or rem != [a for i, a in enumerate(full) if i not in got]:
            LAST_DETAIL = "monomorphised / remaining arguments are not the supplied ones in order"
            return False
        idxs = [CC.compile_variable_idx(i, mono) for i in range(len(ps)) if i not in got]
        if idxs != list(range(len(rem))):
            LAST_DETAIL = f"compile_variable_idx maps remaining positions to {idxs}"
            return False
        stat = {p.idx for p in CC.require_monomorphization(ps)}
        want_stat = set()
        for p in ps:
            if isinstance(p, ConstParam) and p.ty != NAT:
                want_stat |= {p.idx, 0}
        if stat != want_stat:
            LAST_DETAIL = f"require_monomorphization gives {sorted(stat)}, expected {sorted(want_stat)}"
            return False
        return True
