"""C10 — compiler outcome does not depend on the iteration order of sets inside the compiler.
/repo's front-end modules are recompiled from their current source by lib/setorder.py so that every iteration over a
set (for, comprehension, iter/list/tuple/star, set.pop()) asks a controller for its order.  The real `check()` of a
corpus program then runs with the first K order decisions chosen by the solver (one path per distinct decision vector)
and its outcome — the rendered diagnostic, or for accepted programs a dump of the checked CFG with block signatures —
must equal the outcome under the canonical order."""
import ast
import os
import re
import lib.repo_env
from lib import setorder
setorder.install(("guppylang_internals",))
lib.repo_env.shim()
import guppylang
from guppylang_internals.engine import ENGINE, DEF_STORE
from guppylang_internals.error import GuppyError
from guppylang_internals.diagnostic import DiagnosticsRenderer
import guppylang_internals.checker.cfg_checker as _C
from crosshair.tracers import NoTracing, ResumedTracing
from crosshair.core import realize

lib.repo_env.assert_repo(_C)
guppylang.enable_experimental_features()
import importlib.util

_spec = importlib.util.spec_from_file_location("c10_programs", os.path.join(os.path.dirname(__file__), "data", "c10_programs.py"))
P = importlib.util.module_from_spec(_spec)
import sys
sys.modules[_spec.name] = P     # inspect.getsource of struct classes needs the module to be registered
_spec.loader.exec_module(P)

PROG = int(os.environ.get("VERIF_C10_PROG", "0"))
K = int(os.environ.get("VERIF_C10_K", "4"))
GROUP = os.environ.get("VERIF_C10_SITES", "all")   # which sites get solver-chosen orders: all | worklists | others


def _in_group(site) -> bool:
    f, line, kind = setorder.SITES[site]
    wl = kind == "pop()" and (f.endswith("cfg/analysis.py") or f.endswith("cfg/cfg.py"))
    return GROUP == "all" or (GROUP == "worklists") == wl


def _show(v, depth=0) -> str:
    """Compact, address-free rendering of a checked AST (types by their printed form, places by their path)."""
    from guppylang_internals.tys.ty import TypeBase
    if depth > 12:
        return "..."
    if isinstance(v, ast.AST):
        fs = ", ".join(f"{f}={_show(getattr(v, f, None), depth + 1)}" for f in v._fields if f not in ("ctx", "type_comment"))
        ty = getattr(v, "type", None)
        return f"{type(v).__name__}({fs})" + (f":{ty}" if isinstance(ty, TypeBase) else "")
    if isinstance(v, (list, tuple)):
        return "[" + ", ".join(_show(x, depth + 1) for x in v) + "]"
    if isinstance(v, TypeBase):
        return str(v)
    if hasattr(v, "root") and hasattr(v, "ty"):     # a place
        return f"<{v}:{v.ty}>" if type(v).__str__ is not object.__str__ else f"<{getattr(v, 'name', type(v).__name__)}:{v.ty}>"
    if isinstance(v, (str, int, float, bool, type(None))):
        return repr(v)
    return type(v).__name__


def _rowkey(name: str) -> str:
    # numeric order of temporaries (their counter is global to the session: "%tmp12" must not sort before "%tmp9")
    return re.sub(r"%tmp(\d+)", lambda m: "%tmp" + m.group(1).zfill(9), name)


def _dump_checked(defn) -> str:
    out = []
    cfg = getattr(defn, "cfg", None)
    if cfg is None:
        return repr(type(defn).__name__)
    for bb in cfg.bbs:
        # rows are compared as sorted lists: the order of variables inside a block signature does vary with the worklist order
        # (liveness dicts keep insertion order and `eq` compares key sets only), but compile_bb re-orders every row with
        # sort_vars (name order) before it becomes HUGR ports, so the in-row order is not observable in the output
        ins = sorted((f"{v}" for v in bb.sig.input_row), key=_rowkey) if bb is not cfg.entry_bb else [f"{v}" for v in bb.sig.input_row]
        outs = [sorted((f"{v}" for v in row), key=_rowkey) for row in bb.sig.output_rows]
        out.append(f"bb{bb.idx} in={ins} out={outs} succ={[s.idx for s in bb.successors]} pred={_show(bb.branch_pred)} stmts={_show(bb.statements)}")
    return "\n".join(out)


_ADDR = re.compile(r" at 0x[0-9a-f]+")
_TMP = re.compile(r"%tmp(\d+)")


def _norm(text: str) -> str:
    """Remove what legitimately differs between two checks in one session: object addresses, and the global counter
    behind the names of temporaries (renumbered by first appearance)."""
    text = _ADDR.sub("", text)
    seen: dict = {}

    def ren(m):
        return "%tmp#" + str(seen.setdefault(m.group(1), len(seen)))
    return _TMP.sub(ren, text)


def outcome(defn, ctrl) -> str:
    import guppylang_internals.experimental as _E
    _E.EXPERIMENTAL_FEATURES_ENABLED = defn.wrapped.name not in getattr(P, "GATE_OFF", ())
    setorder.set_controller(ctrl)
    try:
        try:
            defn.check()
        except GuppyError as e:
            r = DiagnosticsRenderer(DEF_STORE.sources)
            r.render_diagnostic(e.error)
            return _norm("REJECTED\n" + "\n".join(r.buffer))
        return _norm("ACCEPTED\n" + _dump_checked(ENGINE.checked[defn.id]))
    finally:
        setorder.set_controller(None)


with NoTracing():
    _DEF = P.PROGRAMS[PROG]
    _BASE_CTRL = setorder.Controller()
    BASELINE = outcome(_DEF, _BASE_CTRL)
LAST_DETAIL = None


def h_order(p0: int, p1: int, p2: int, p3: int, p4: int, p5: int, p6: int, p7: int) -> bool:
    """
    pre: all(0 <= p < 6 for p in (p0, p1, p2, p3, p4, p5, p6, p7))
    pre: [p0, p1, p2, p3, p4, p5, p6, p7][K:] == [0] * (8 - K)
    post: _
    """
    global LAST_DETAIL
    picks = [p0, p1, p2, p3, p4, p5, p6, p7]
    state = {"i": 0}

    def choose(n):
        i = state["i"]
        state["i"] += 1
        if i >= len(picks):
            return 0
        with ResumedTracing():
            return realize(picks[i] % n)   # one path per distinct element picked

    with NoTracing():
        ctrl = setorder.Controller(choose, max_picks=K, site_filter=_in_group)
        got = outcome(_DEF, ctrl)
        if got != BASELINE:
            sites = [(setorder.SITES[s][0].split("guppylang_internals/")[-1], setorder.SITES[s][1], n, k) for s, n, k in ctrl.log]
            a, b = BASELINE.splitlines(), got.splitlines()
            i = next((j for j in range(min(len(a), len(b))) if a[j] != b[j]), min(len(a), len(b)))
            la, lb = (a[i] if i < len(a) else "<end>"), (b[i] if i < len(b) else "<end>")
            c = next((j for j in range(min(len(la), len(lb))) if la[j] != lb[j]), 0)
            LAST_DETAIL = (f"program {_DEF.wrapped.name}: order decisions {sites} change the outcome at line {i}, column {c}: "
                           f"canonical order: ...{la[max(0, c - 150):c + 150]}...  |  this order: ...{lb[max(0, c - 150):c + 150]}...")
            return False
        return True


def h_order_policy(case: int) -> bool:
    """
    pre: 0 <= case < 144
    post: _
    """
    # a family of whole-run schedules: the i-th order decision picks element (a*i*i + b*i + c) mod n.  Unlike h_order it
    # perturbs *every* decision of the run, not only the first K.
    global LAST_DETAIL
    case = realize(case)
    a, b, c = case // 36, (case // 6) % 6, case % 6
    state = {"i": 0}

    def choose(n):
        i = state["i"]
        state["i"] += 1
        return (a * i * i + b * i + c) % n

    with NoTracing():
        ctrl = setorder.Controller(choose, max_picks=10 ** 9, site_filter=_in_group)
        got = outcome(_DEF, ctrl)
        if got != BASELINE:
            x, y = BASELINE.splitlines(), got.splitlines()
            i = next((j for j in range(min(len(x), len(y))) if x[j] != y[j]), min(len(x), len(y)))
            LAST_DETAIL = (f"program {_DEF.wrapped.name}: schedule policy (a={a}, b={b}, c={c}) changes the outcome at line {i}: "
                           f"canonical: {x[i][:300] if i < len(x) else '<end>'} | this order: {y[i][:300] if i < len(y) else '<end>'}")
            return False
        return True


def sites_report():
    """(sites where a set with >= 2 elements arrived, all rewritten sites)"""
    seen = sorted({(setorder.SITES[s][0].split("guppylang_internals/")[-1], setorder.SITES[s][1], setorder.SITES[s][2]) for s in setorder.SEEN_SET_AT})
    return seen, len(setorder.SITES)


if __name__ == "__main__":   # python -m harness.C10_setorder  -> JSON: sites exercised by this program under the canonical order
    import json
    seen, total = sites_report()
    print("SITES " + json.dumps({"program": _DEF.wrapped.name, "outcome": BASELINE.splitlines()[0], "seen": seen, "rewritten_sites": total}))
