"""C09 — end to end on real control-flow graphs, worklist order symbolic.
The graphs and use/assign sets are what the real CFGBuilder + BB.compute_variable_stats produce for a corpus of
programs; ForwardAnalysis.run / BackwardAnalysis.run are recompiled from the current source with `queue.pop()`
replaced by `_choose(queue)`, which picks the element selected by the next symbolic schedule entry.  The real
CFG.analyze then runs (it calls those run methods) and its three results are compared with the path-based sets
computed by an independent graph search."""
import ast
import inspect
import os
import textwrap
import lib.repo_env
lib.repo_env.shim()
from lib import astx
from guppylang_internals.cfg import analysis as A
from guppylang_internals.cfg.builder import CFGBuilder
from guppylang_internals.checker.core import Globals
from guppylang_internals.ast_util import annotate_location

lib.repo_env.assert_repo(A)
from crosshair.tracers import NoTracing
from crosshair.core import realize

_orig_aa_init = A.AssignmentAnalysis.__init__


def _untraced(f):
    def w(*a, **k):
        with NoTracing():
            return f(*a, **k)
    return w


# The lattice operations work on concrete data here (only the visiting order is symbolic).  AssignmentAnalysis uses
# the descriptor forms set.union(*...) / set.intersection(*...), which reject the shell sets CrossHair substitutes
# for set results under tracing, so the lattice operations run untraced; the worklist loop itself stays traced.
_LATTICE = [(cls, n, getattr(cls, n)) for cls in (A.AssignmentAnalysis, A.LivenessAnalysis) for n in ("join", "apply_bb", "eq")
            if n in vars(cls)]


def _aa_init_untraced(self, *a, **k):
    # uses set.union(*...) (descriptor form), which rejects CrossHair's shell sets; all inputs are concrete
    with NoTracing():
        _orig_aa_init(self, *a, **k)

PROGS = [
    # (source, argument names)
    ("""
def p(a, b):
    x = a
    while x < b:
        if x == 3:
            y = x
            break
        x = x + 1
    else_marker = 0
    return x
""", ["a", "b"]),
    ("""
def p(a, b):
    if a:
        x = 1
    else:
        y = 2
    while b:
        if a:
            continue
        z = x
        b = b - 1
    return a
""", ["a", "b"]),
    ("""
def p(a, b):
    for i in range(a):
        if i == b:
            return i
        t = i
    u = a
    return u
    v = t
    while v:
        v = v - 1
""", ["a", "b"]),
    ("""
def p(a, b):
    while True:
        a = a + 1
        if a > b:
            break
        c = a
    d = c if a else b
    return d
""", ["a", "b"]),
    ("""
def p(a, b):
    x = 0
    while a:
        while b:
            if x:
                break
            x = b
            b = b - 1
        a = a - 1
        w = x
    return x
""", ["a", "b"]),
    ("""
def p(a, b):
    if a and b or not a:
        r = 1
    elif b:
        r = 2
        s = r
    return a
""", ["a", "b"]),
]
PROG = int(os.environ.get("VERIF_C09_PROG", "0"))
K = int(os.environ.get("VERIF_C09_K", "4"))


def _build(src):
    src = textwrap.dedent(src).strip() + "\n"
    fn = ast.parse(src).body[0]
    annotate_location(fn, src, "<c09>", 1)
    cfg = CFGBuilder().build(fn.body, False, Globals(inspect.currentframe()))
    return cfg


class _Sched:
    picks: list = []
    i = 0
    steps = 0


def _choose(queue):
    _Sched.steps += 1
    if _Sched.steps > 400:
        raise RuntimeError("worklist does not terminate within 400 pops")
    elems = sorted(queue, key=lambda b: b.idx)
    if _Sched.i < len(_Sched.picks):
        k = realize(_Sched.picks[_Sched.i]) % len(elems)   # the solver picks the next block: one path per distinct choice
        _Sched.i += 1
    else:
        k = 0
    e = elems[k]
    queue.remove(e)
    return e


def _scheduled(cls):
    class R(ast.NodeTransformer):
        n = 0

        def visit_Call(self, node):
            self.generic_visit(node)
            if ast.unparse(node) == "queue.pop()":
                R.n += 1
                return ast.Call(func=ast.Name(id="_choose", ctx=ast.Load()), args=[ast.Name(id="queue", ctx=ast.Load())], keywords=[])
            return node

    def tr(fd):
        fd = R().visit(fd)
        if R.n != 1:
            raise RuntimeError(f"{cls.__name__}.run: expected exactly one queue.pop()")
        return fd

    g = dict(vars(A))
    g["_choose"] = _choose
    return astx.rebuild(cls.run, tr, g)


FWD_SCHED = _scheduled(A.ForwardAnalysis)
BWD_SCHED = _scheduled(A.BackwardAnalysis)


# ------------------------------------------------------------------------------- path-based oracle
def _succs(b):
    return list(b.successors) + list(b.dummy_successors)


def _preds(b):
    return list(b.predecessors) + list(b.dummy_predecessors)


def oracle(cfg, stats, entry_vars):
    bbs = cfg.bbs
    allv = set(entry_vars)
    for b in bbs:
        allv |= set(stats[b].assigned) | set(stats[b].used)
    live, dass, mass = {}, {}, {}
    for b in bbs:
        lv = set()
        for x in allv:
            seen, stack, found = set(), [b], False
            while stack and not found:
                c = stack.pop()
                if c in seen:
                    continue
                seen.add(c)
                if x in stats[c].used:
                    found = True
                elif x not in stats[c].assigned:
                    stack.extend(_succs(c))
            if found:
                lv.add(x)
        live[b] = lv
    roots = [b for b in bbs if not _preds(b)]
    assigned_somewhere = set(entry_vars)
    for b in bbs:
        assigned_somewhere |= set(stats[b].assigned)
    for b in bbs:
        d, m = set(), set()
        for x in assigned_somewhere:
            # some path root -> b on which no block before b assigns x (and x not assigned before entry)?
            seen, stack, unassigned_path = set(), [r for r in roots], False
            # search forward from roots through blocks that do not assign x
            while stack and not unassigned_path:
                c = stack.pop()
                if c in seen:
                    continue
                seen.add(c)
                if c is b:
                    unassigned_path = True
                    break
                if x not in stats[c].assigned:
                    stack.extend(_succs(c))
            if x in entry_vars or not unassigned_path:
                d.add(x)
            # some path root -> b on which a block before b assigns x?
            found = x in entry_vars and _reach(roots, b)
            if not found:
                for c in bbs:
                    if x in stats[c].assigned and _reach(roots, c) and any(_reach([s], b) for s in _succs(c)):
                        found = True
                        break
            if found:
                m.add(x)
        dass[b], mass[b] = d, m
    return live, dass, mass


def _reach(srcs, tgt):
    seen, stack = set(), list(srcs)
    while stack:
        c = stack.pop()
        if c is tgt:
            return True
        if c in seen:
            continue
        seen.add(c)
        stack.extend(_succs(c))
    return False


LAST_DETAIL = None
R = int(os.environ.get("VERIF_C09_R", "4"))   # each symbolic pick selects among the R lowest-indexed queued blocks (mod queue size)
with NoTracing():
    _SRC, _ARGS = PROGS[PROG]
    _CFG = _build(_SRC)      # the real builder's graph, built once per process (concrete)


def _run(picks_b, picks_f) -> bool:
    global LAST_DETAIL
    cfg, args = _CFG, _ARGS
    orig_f, orig_b = A.ForwardAnalysis.run, A.BackwardAnalysis.run

    def run_b(self, bbs):
        _Sched.picks, _Sched.i, _Sched.steps = picks_b, 0, 0
        return BWD_SCHED(self, bbs)

    def run_f(self, bbs):
        _Sched.picks, _Sched.i, _Sched.steps = picks_f, 0, 0
        return FWD_SCHED(self, bbs)

    A.ForwardAnalysis.run, A.BackwardAnalysis.run = run_f, run_b
    try:
        # graph, use/assign sets and lattice values are concrete; only the picks are symbolic and they are
        # realised one by one inside _choose, so the rest runs untraced (x100 faster per path)
        with NoTracing():
            stats = cfg.analyze({*args}, {*args}, [])
    finally:
        A.ForwardAnalysis.run, A.BackwardAnalysis.run = orig_f, orig_b
    with NoTracing():
        live, dass, mass = oracle(cfg, stats, {*args})
        for b in cfg.bbs:
            if set(cfg.live_before[b].keys()) != live[b]:
                LAST_DETAIL = f"live_before[bb{b.idx}] = {sorted(cfg.live_before[b])}, path-based {sorted(live[b])}"
                return False
            if set(cfg.ass_before[b]) != dass[b]:
                LAST_DETAIL = f"ass_before[bb{b.idx}] = {sorted(cfg.ass_before[b])}, path-based {sorted(dass[b])}"
                return False
            if set(cfg.maybe_ass_before[b]) != mass[b]:
                LAST_DETAIL = f"maybe_ass_before[bb{b.idx}] = {sorted(cfg.maybe_ass_before[b])}, path-based {sorted(mass[b])}"
                return False
    return True


def _ok(picks):
    return all(0 <= p < R for p in picks)


def h_schedule_bwd(s0: int, s1: int, s2: int, s3: int, s4: int, s5: int, s6: int, s7: int) -> bool:
    """
    pre: _ok([s0, s1, s2, s3, s4, s5, s6, s7][:K]) and [s0, s1, s2, s3, s4, s5, s6, s7][K:] == [0] * (8 - K)
    post: _
    """
    # liveness (backward) runs first inside analyze; its first K picks are symbolic, the forward pass pops lowest-first
    return _run([s0, s1, s2, s3, s4, s5, s6, s7][:K], [])


def h_schedule_fwd(t0: int, t1: int, t2: int, t3: int, t4: int, t5: int, t6: int, t7: int) -> bool:
    """
    pre: _ok([t0, t1, t2, t3, t4, t5, t6, t7][:K]) and [t0, t1, t2, t3, t4, t5, t6, t7][K:] == [0] * (8 - K)
    post: _
    """
    return _run([], [t0, t1, t2, t3, t4, t5, t6, t7][:K])


def h_schedule_rev(flag: bool) -> bool:
    """
    post: _
    """
    # one concrete extreme schedule: always the highest-indexed queued block, both passes
    return _run([-1] * 400 if flag else [0] * 400, [-1] * 400 if flag else [0] * 400)
