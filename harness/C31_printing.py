"""C31 — printed types read back as the same type; distinct type variables print with distinct names.
Real code: tys/printing.py (TypePrinter, reached through str(ty)), tys/parsing.py (type_from_ast and helpers), with the
struct definitions of harness/data/c31_defs.py resolved through a real Globals.
Round trip: selector -> real first-order Type of bounded depth -> str(ty) -> ast.parse -> type_from_ast -> ==.
The printer and parser work on strings and C-level ast objects, so each explored path is one concrete type: the solver
enumerates the selector space exhaustively within the bound (stated in the evidence)."""
import ast
import importlib.util
import inspect
import os
import sys
import lib.repo_env
lib.repo_env.shim()
import guppylang
from guppylang_internals.engine import ENGINE, DEF_STORE
from guppylang_internals.tys import printing as PR, parsing as PA
from guppylang_internals.tys.ty import (BoundTypeVar, ExistentialTypeVar, FuncInput, FunctionType, InputFlags, NoneType, NumericType,
                                        StructType, TupleType)
from guppylang_internals.tys.builtin import (array_type, bool_type, frozenarray_type, option_type, string_type)
from guppylang_internals.tys.param import TypeParam
from guppylang_internals.tys.arg import TypeArg, ConstArg
from guppylang_internals.tys.const import ConstValue
from guppylang_internals.tys.parsing import TypeParsingCtx, type_from_ast
from guppylang_internals.checker.core import Globals
from guppylang_internals.ast_util import annotate_location
from crosshair.tracers import NoTracing
from crosshair.core import realize

lib.repo_env.assert_repo(PR, PA)
guppylang.enable_experimental_features()
_spec = importlib.util.spec_from_file_location("c31_defs", os.path.join(os.path.dirname(__file__), "data", "c31_defs.py"))
D = importlib.util.module_from_spec(_spec)
sys.modules[_spec.name] = D
_spec.loader.exec_module(D)
from guppylang.std.builtins import array, frozenarray, nat  # noqa: E402,F401
from guppylang.std.option import Option  # noqa: E402,F401
from guppylang.std.quantum import qubit  # noqa: E402,F401
Plain, Gen1, Gen2, Sized, Flagged = D.Plain, D.Gen1, D.Gen2, D.Sized, D.Flagged   # names visible to Globals(frame) below

DEPTH = int(os.environ.get("VERIF_C31_DEPTH", "2"))
_SH, _NSH = (int(x) for x in os.environ.get("VERIF_C31_SHARD", "0/1").split("/"))
INT, NAT, FLOAT = (NumericType(k) for k in (NumericType.Kind.Int, NumericType.Kind.Nat, NumericType.Kind.Float))
NATTY = NAT
from guppylang_internals.tys.builtin import bool_type as _bool_type
BOOLTY = _bool_type()


def _struct(defn, args):
    cd = ENGINE.get_checked(defn.id)
    return StructType(args, cd)


def _qubit():
    from guppylang_internals.tys.ty import OpaqueType
    return OpaqueType([], DEF_STORE.raw_defs[qubit.id])


LEAVES = [lambda: INT, lambda: NAT, lambda: FLOAT, bool_type, string_type, NoneType, lambda: TupleType([]), lambda: _struct(Plain, []), _qubit]
LEAF_NAMES = ["int", "nat", "float", "bool", "str", "None", "()", "Plain", "qubit"]


def _nat(k):
    return ConstArg(ConstValue(NATTY, k))


def build_all(depth):
    """all first-order types of the given constructor depth (a finite list, deterministic)"""
    cur = [f() for f in LEAVES]
    for _ in range(depth):
        small = cur[: 12] if len(cur) > 12 else cur       # children pool for n-ary constructors stays small
        nxt = list(cur)
        for t in cur:
            nxt.append(TupleType([t]))
            nxt.append(array_type(t, 2))
            nxt.append(option_type(t))
            if t.copyable:
                nxt.append(frozenarray_type(t, 3))
            nxt.append(_struct(Gen1, [TypeArg(t)]))
            nxt.append(_struct(Sized, [TypeArg(t), _nat(4)]))
            nxt.append(_struct(Flagged, [TypeArg(t), ConstArg(ConstValue(BOOLTY, len(nxt) % 2 == 0))]))     # a bool constant argument (True / False alternate)
        for a in small:
            for b in small[:6]:
                nxt.append(TupleType([a, b]))
                nxt.append(_struct(Gen2, [TypeArg(a), TypeArg(b)]))
            nxt.append(TupleType([a, INT, a]))
        # de-duplicate, keep order
        seen, out = set(), []
        for t in nxt:
            k = repr(t)
            if k not in seen:
                seen.add(k)
                out.append(t)
        cur = out
    return cur


with NoTracing():
    TYPES = build_all(DEPTH)[_SH::_NSH]
    GLOBALS = Globals(inspect.currentframe())
def sole_tuple_argument(ty) -> bool:
    """region of the known finding: somewhere in the type a generic type has a tuple type as its only type argument"""
    from guppylang_internals.tys.ty import OpaqueType
    if isinstance(ty, (OpaqueType, StructType)):
        targs = [a.ty for a in ty.args if isinstance(a, TypeArg)]
        if len(ty.args) == 1 and targs and isinstance(targs[0], TupleType):
            return True
        return any(sole_tuple_argument(t) for t in targs)
    if isinstance(ty, TupleType):
        return any(sole_tuple_argument(t) for t in ty.element_types)
    return False


with NoTracing():
    REGION = os.environ.get("VERIF_C31_REGION") == "1"
    TYPES = [t for t in TYPES if sole_tuple_argument(t) == REGION]
NT = len(TYPES)
LAST_DETAIL = None


def roundtrip(ty):
    s = str(ty)
    node = ast.parse(s, mode="eval").body
    annotate_location(node, s, "<ty>", 1)
    return s, type_from_ast(node, TypeParsingCtx(GLOBALS))


with NoTracing():
    from guppylang_internals.tys.const import ExistentialConstVar
    _EXT, _EXC = [], []
    for _k in range(20):        # made alternately, so that separate counters (if there were any) would run in step
        _EXT.append(ExistentialTypeVar.fresh("T", True, True))
        _EXC.append(ExistentialConstVar.fresh("T", NATTY))


def h_roundtrip(case: int) -> bool:
    """
    pre: 0 <= case < NT
    post: _
    """
    global LAST_DETAIL
    ty = TYPES[realize(case)]
    with NoTracing():
        try:
            s, back = roundtrip(ty)
        except Exception as e:  # noqa: BLE001
            LAST_DETAIL = f"{ty!r} prints as {str(ty)!r}, which does not parse back: {type(e).__name__}: {e}"
            return False
        if back != ty:
            LAST_DETAIL = f"{ty!r} prints as {s!r}, which parses back as {back!r} (printed {str(back)!r})"
            return False
        return True


NAMES = ["T", "U", "T"]      # pool with a repeated name: different variables may share a display name


import itertools as _it

NAMES5 = ["T", "T", "T_1", "T1", "T_"]       # names a suffix scheme for clashes might itself produce
_NAMECASES = [(nb, ne, names, tw, NAMES) for nb in range(4) for ne in range(4) if nb + ne >= 1
              for names in _it.product(range(3), repeat=nb + ne) for tw in (False, True)]
_NAMECASES += [(nb, ne, names, tw, NAMES5) for nb in range(4) for ne in range(4) if 1 <= nb + ne <= 3
               for names in _it.product(range(5), repeat=nb + ne) for tw in (False, True)]
_NAMECASES = _NAMECASES[_SH::_NSH]


def h_distinct_names(case: int) -> bool:
    """
    pre: 0 <= case < len(_NAMECASES)
    post: _
    """
    # a generic function type over n_bound parameters and n_exist inference variables whose display names are chosen from
    # a pool with clashes: every variable is printed once (or twice) among the inputs; distinct variables must get distinct
    # printed names, the same variable the same name
    global LAST_DETAIL
    n_bound, n_exist, names, twice, pool = _NAMECASES[realize(case)]
    bn = [pool[i] for i in names[:n_bound]]
    en = [pool[i] for i in names[n_bound:]]
    with NoTracing():
        params = [TypeParam(i, nm, True, True) for i, nm in enumerate(bn)]
        bvars = [BoundTypeVar(nm, i, True, True) for i, nm in enumerate(bn)]
        evars = [ExistentialTypeVar.fresh(nm, True, True) for nm in en]
        occ = bvars + evars + (bvars + evars if twice else [])
        fty = FunctionType([FuncInput(v, InputFlags.NoFlags) for v in occ] + [FuncInput(INT, InputFlags.NoFlags)], NoneType(), params=params)
        s = str(fty)
        body = s.split(". ", 1)[1] if s.startswith("forall") else s
        inside = body[1:body.rindex(") -> ")]
        printed = [x.strip() for x in inside.split(", ")][:len(occ)]
        if len(printed) != len(occ):
            LAST_DETAIL = f"cannot read variable names back from {s!r}"
            return False
        for i in range(len(occ)):
            for j in range(i + 1, len(occ)):
                same = occ[i] is occ[j]
                if (printed[i] == printed[j]) != same:
                    LAST_DETAIL = f"{s!r}: occurrences {i} and {j} are {'the same' if same else 'different'} variables but print as {printed[i]!r} / {printed[j]!r}"
                    return False
        return True


def h_existential_mix(i: int, j: int) -> bool:
    """
    pre: 0 <= i < 20 and 0 <= j < 20
    post: _
    """
    # an unsolved type variable and an unsolved constant variable are different variables whatever their internal numbering:
    # `array[?T_i, ?n_j]` must show two different names (20 x 20 pairs of freshly made variables)
    global LAST_DETAIL
    ci, cj = realize(i), realize(j)
    with NoTracing():
        tv, cv = _EXT[ci], _EXC[cj]
        s = str(array_type(tv, cv))
        inner = s[s.index("[") + 1:s.rindex("]")]
        a, b = [x.strip() for x in inner.split(",")]
        if a == b:
            LAST_DETAIL = f"type variable #{ci} and constant variable #{cj} are different variables, but array[?T, ?n] prints as {s!r}"
            return False
        return True
