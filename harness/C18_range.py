"""C18 — range() yields Python's sequence.
Executed: /repo's guppylang/std/iter.py — Range.__next__, Range.__iter__, _range1/_range2/_range3,
_range_comptime — compiled from the current source with + - * made 64-bit wrapping (Guppy int = i64).
Symbolic: start, stop, step over the whole int64 domain (step != 0)."""
import ast
import os
import lib.repo_env
from lib.core import known_keys
from lib.guppy_models import Panic, base_ns, load_function, load_struct, parse, wrap_s64, wrap_transform

ITER_PY = "guppylang/src/guppylang/std/iter.py"
L = int(os.environ.get("VERIF_C18_L", "6"))
LO, HI = -(1 << 63), (1 << 63) - 1
EXCLUDE_OVERFLOW = "C18:range-next-overflow" in known_keys("C18")

_ns = base_ns(__wrap_s64=wrap_s64, SizedIter=lambda it: it)
Range = load_struct(ITER_PY, "Range", _ns, transform=wrap_transform)
_range1 = load_function(ITER_PY, "_range1", _ns, transform=wrap_transform)
_range2 = load_function(ITER_PY, "_range2", _ns, transform=wrap_transform)
_range3 = load_function(ITER_PY, "_range3", _ns, transform=wrap_transform)
_range_comptime = load_function(ITER_PY, "_range_comptime", _ns, transform=wrap_transform)


def _in64(v) -> bool:
    return LO <= v <= HI


def _expected(start, stop, step, j):
    """Python's range(start, stop, step): is there a j-th element, and which (j concrete)."""
    v = start + j * step
    has = (v < stop) if step > 0 else (v > stop)
    return has, v


def _overflows(start, stop, step) -> bool:
    """Some element among the first L is yielded and stepping past it leaves int64."""
    for j in range(L):
        has, v = _expected(start, stop, step, j)
        if not has:
            return False
        if not _in64(v + step):
            return True
    return False


def _follows_python(r, start, stop, step) -> bool:
    it = r.__iter__()
    for j in range(L + 1):
        has, v = _expected(start, stop, step, j)
        o = it.__next__()
        if o.is_some() != has:
            return False
        if not has:
            # exhausted iterators stay exhausted
            return it.__next__().is_nothing()
        val, it = o.v[0]
        if val != v:
            return False
    return True


def h_range3(start: int, stop: int, step: int) -> bool:
    """
    pre: LO <= start <= HI and LO <= stop <= HI and LO <= step <= HI and step != 0
    pre: not (EXCLUDE_OVERFLOW and _overflows(start, stop, step))
    post: _
    """
    return _follows_python(_range3(start, stop, step), start, stop, step)


def h_range3_overflow_region(start: int, stop: int, step: int) -> bool:
    """
    pre: LO <= start <= HI and LO <= stop <= HI and LO <= step <= HI and step != 0
    pre: _overflows(start, stop, step)
    post: _
    """
    return _follows_python(_range3(start, stop, step), start, stop, step)


def h_range2(start: int, stop: int) -> bool:
    """
    pre: LO <= start <= HI and LO <= stop <= HI
    post: _
    """
    return _follows_python(_range2(start, stop), start, stop, 1)


def h_range1(stop: int) -> bool:
    """
    pre: LO <= stop <= HI
    post: _
    """
    return _follows_python(_range1(stop), 0, stop, 1)


def h_range_comptime(n: int) -> bool:
    """
    pre: 0 <= n <= L
    post: _
    """
    # statically sized to n (annotation read from the source) and yields exactly n elements 0..n-1
    it = _range_comptime(n)
    got = []
    for _ in range(L + 2):
        o = it.__next__()
        if o.is_nothing():
            break
        v, it = o.v[0]
        got.append(v)
    return got == list(range(n)) and _comptime_annotation_ok()


def _comptime_annotation_ok() -> bool:
    tree = parse(ITER_PY)
    fn = next(x for x in tree.body if isinstance(x, ast.FunctionDef) and x.name == "_range_comptime")
    arg = fn.args.args[0].arg
    ann = fn.returns
    txt = ann.value if isinstance(ann, ast.Constant) else ast.unparse(ann)
    return txt.replace(" ", "") == f"SizedIter[Range,{arg}]"


def h_overload_order() -> bool:
    """
    post: _
    """
    # `range` dispatches over (_range_comptime, _range1, _range2, _range3) in that order: the comptime
    # variant first (so that a comptime-known stop gets the sized iterator), then by arity 1, 2, 3
    tree = parse(ITER_PY)
    fn = next(x for x in tree.body if isinstance(x, ast.FunctionDef) and x.name == "range")
    dec = fn.decorator_list[0]
    names = [a.id for a in dec.args]
    ar = {x.name: len(x.args.args) for x in tree.body if isinstance(x, ast.FunctionDef)}
    return ast.unparse(dec.func) == "guppy.overload" and names == ["_range_comptime", "_range1", "_range2", "_range3"] \
        and [ar[n] for n in names] == [1, 1, 2, 3]
