"""Struct definitions for the C24 harness: qubits held in fields of (nested / generic) structs."""
from guppylang import guppy
from guppylang.std.builtins import array
from guppylang.std.quantum import qubit

T = guppy.type_var("T", copyable=False, droppable=False)


@guppy.struct
class SQ:
    q: qubit


@guppy.struct
class SC:
    x: int
    y: float


@guppy.struct
class SA:
    x: int
    qs: array[qubit, 2]


@guppy.struct
class SN:
    y: int
    s: SQ


@guppy.struct
class Box[T]:
    v: T
