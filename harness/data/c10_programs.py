"""Corpus for C10: programs whose checking visits sets with >= 2 elements (several simultaneous errors, several live
variables).  Real file because the @guppy decorator reads sources with inspect."""
from guppylang import guppy
from guppylang.std.builtins import owned, result, array
from guppylang.std.quantum import qubit, measure, h, cx, discard
from typing import Generic, TypeVar  # noqa: F401

T = guppy.type_var("T")
U = guppy.type_var("U")


@guppy
def rows_two_types(c: bool) -> int:
    if c:
        alpha = 1
        beta = 2
    else:
        alpha = 1.5
        beta = True
    return int(alpha) + int(beta)


@guppy
def rows_three_types(c: bool, d: bool) -> int:
    zed = 0
    while c:
        if d:
            zed = 1.5
            yy = 2
            xx = False
        else:
            yy = 2.5
            xx = 3
        c = d
    return zed + yy + xx


@guppy
def maybe_undefined_two(c: bool) -> int:
    if c:
        first = 1
        second = 2
    return first + second


@guppy
def unused_two(c: bool) -> None:
    q1 = qubit()
    q2 = qubit()
    q3 = qubit()
    if c:
        h(q1)


@guppy
def leak_in_branches(c: bool, q: qubit @ owned, r: qubit @ owned, s: qubit @ owned) -> None:
    if c:
        discard(q)
    else:
        discard(r)


@guppy
def accepted_many_live(n: int) -> int:
    a = 1
    b = 2.5
    cc = True
    d = 4
    i = 0
    while i < n:
        if cc:
            a = a + d
        else:
            b = b + 1.0
        i += 1
        cc = not cc
    return a + int(b) + d


@guppy
def accepted_qubits(c: bool) -> bool:
    q1 = qubit()
    q2 = qubit()
    q3 = qubit()
    if c:
        cx(q1, q2)
    else:
        cx(q2, q3)
    m1 = measure(q1)
    m2 = measure(q2)
    m3 = measure(q3)
    return m1 and m2 or m3


@guppy.declare
def two_params(x: T, y: U) -> int: ...


@guppy.declare
def make_pair() -> tuple[T, U]: ...


@guppy
def unsolved_two() -> int:
    p = make_pair()
    return 0


@guppy
def use_after_move_two(q: qubit @ owned, r: qubit @ owned) -> None:
    discard(q)
    discard(r)
    h(r)
    h(q)


@guppy
def accepted_for(n: int) -> int:
    s = 0
    t = 1
    for i in range(n):
        for j in range(i):
            s += j
            t = t * 2
    return s + t


@guppy
def maybe_undefined_siblings(a: bool, b: bool, c: bool) -> int:
    if a:
        if b:
            zeta = 1
        if c:
            zeta = 2
    else:
        if c:
            zeta = 3
    return zeta


@guppy
def maybe_undefined_three(a: bool, b: bool) -> int:
    if a:
        u1 = 1
    if b:
        u2 = 2
    if a and b:
        u3 = 3
    return u1 + u2 + u3


@guppy
def closure_captures(x: int, y: float, z: bool) -> float:
    w = 7

    def inner(k: int) -> float:
        if z:
            return y + x + k
        return y - w

    return inner(1)


@guppy
def closure_captures_gate_off(x: int, y: float, z: bool) -> float:
    def inner(k: int) -> float:
        if z:
            return y + x + k
        return y

    return inner(1)


@guppy.struct
class Quad:
    p: int
    q: float
    r: bool
    s: int


@guppy
def struct_fields_live(v: Quad, c: bool) -> float:
    i = 0
    acc = 0.0
    while i < v.s:
        if v.r and c:
            acc += v.q
        else:
            acc += v.p
        i += 1
    return acc


@guppy
def nested_loops_break(n: int, m: int) -> int:
    a = 0
    b = 1
    c = 2
    for i in range(n):
        for j in range(m):
            if i * j > c:
                break
            a += b
        else_ = a
        b += c
        c += else_
    return a + b + c


@guppy
def array_comp_captures(x: int, y: int) -> array[int, 4]:
    return array(i * x + y for i in range(4))


@guppy
def generic_two(x: int, y: float) -> int:
    return two_params(x, y) + two_params(y, x)


GATE_OFF = {"closure_captures_gate_off"}
PROGRAMS = [maybe_undefined_siblings, maybe_undefined_three, closure_captures, closure_captures_gate_off, struct_fields_live,
            nested_loops_break, array_comp_captures, generic_two, rows_two_types, rows_three_types, maybe_undefined_two, unused_two, leak_in_branches, accepted_many_live,
            accepted_qubits, unsolved_two, use_after_move_two, accepted_for]
