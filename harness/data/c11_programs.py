"""Extra pool members of the C11 harness: failures that sit in a *callee* (the caller and the intermediate callers are already
registered as checked when the error is raised), callers sharing a callee, a function that never returns, and a comptime-
monomorphised function instantiated twice."""
from guppylang import guppy
from guppylang.std.builtins import comptime


@guppy
def bad_leaf(x: int) -> int:
    return x + True + (1, 2)


@guppy
def mid_calls_bad(x: int) -> int:
    return bad_leaf(x) + 1


@guppy
def top_calls_mid(x: int) -> int:
    y = ok_leaf(x)
    return mid_calls_bad(y)


@guppy
def ok_leaf(x: int) -> int:
    return x * 2


@guppy
def ok_user(x: int) -> int:
    return ok_leaf(x) + ok_leaf(x + 1)


@guppy
def spin(x: int) -> int:
    while True:
        x += 1


@guppy
def pick(flag: bool @ comptime, x: int) -> int:
    while True:
        x += 1


@guppy
def uses_pick(x: int) -> int:
    if x > 0:
        return pick(True, x)
    return pick(False, x) + pick(True, 1)


PROGRAMS = [bad_leaf, mid_calls_bad, top_calls_mid, ok_leaf, ok_user, spin, uses_pick]
