"""Struct definitions for the C31 round trip (real file: the decorator reads sources with inspect)."""
from guppylang import guppy
from guppylang.std.builtins import array, frozenarray, nat
from guppylang.std.option import Option
from guppylang.std.quantum import qubit
from typing import Generic

T = guppy.type_var("T", copyable=False, droppable=False)
U = guppy.type_var("U", copyable=False, droppable=False)
n = guppy.nat_var("n")


@guppy.struct
class Plain:
    a: int
    b: bool


@guppy.struct
class Gen1(Generic[T]):
    x: T


@guppy.struct
class Gen2(Generic[T, U]):
    x: T
    y: U


@guppy.struct
class Sized(Generic[T, n]):
    xs: array[T, n]


B = guppy.const_var("B", "bool")


@guppy.struct
class Flagged(Generic[T, B]):
    v: T
