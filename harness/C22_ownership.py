"""C22 — comptime tracing enforces ownership (kernel level).
Real code: tracing/object.py (GuppyObject.__init__ / _use_wire, GuppyStructObject.__setattr__ / __getattr__),
tracing/frozenlist.py, tracing/state.py (TracingState.unused_undroppable_objs), with a stand-in tracing state.
 (a) from an arbitrary object (symbolic copy/drop bounds, created used or unused) a symbolic number of uses: a use raises
     iff the value was used before and is not copyable; the object is listed as an unused non-droppable value — what
     trace_function reports as a leak at the end — iff it is not droppable and was never used.
 (b) a frozen list of symbolic contents under every method / operator `list` offers with symbolic arguments: either a
     GuppyComptimeError (or another exception) is raised and nothing changed, or the call returns and nothing changed.
 (c) struct objects: assignment to a field of a frozen struct raises and leaves the field; of a non-frozen one stores."""
import lib.repo_env
lib.repo_env.shim()
import guppylang  # noqa: F401
import guppylang_internals.tracing.object as O
import guppylang_internals.tracing.state as S
from guppylang_internals.tracing.frozenlist import frozenlist
from guppylang_internals.tracing import frozenlist as FL
from guppylang_internals.error import GuppyComptimeError
from guppylang_internals.tys.ty import BoundTypeVar, StructType
from guppylang_internals.tys.param import TypeParam
from guppylang_internals.definition.struct import CheckedStructDef, StructField
from guppylang_internals.definition.common import DefId
from guppylang_internals.tys.ty import NumericType
from crosshair.tracers import NoTracing
from crosshair.core import realize

lib.repo_env.assert_repo(O, FL)


class _State:
    def __init__(self):
        self.unused_undroppable_objs = {}


_ST = [_State()]
O.get_tracing_state = lambda: _ST[0]
S.get_tracing_state = lambda: _ST[0]
LAST_DETAIL = None


def h_use_once(copyable: bool, droppable: bool, created_used: bool, uses: int) -> bool:
    """
    pre: 0 <= uses <= 3
    pre: droppable or not copyable
    post: _
    """
    global LAST_DETAIL
    _ST[0] = _State()
    ty = BoundTypeVar("T", 0, copyable, droppable)
    used0 = O.ObjectUse("m.py", 1, None) if created_used else None
    obj = O.GuppyObject(ty, "wire", used0)
    ever_used = created_used
    listed = obj._id in _ST[0].unused_undroppable_objs
    if listed != ((not droppable) and not ever_used):
        LAST_DETAIL = f"after creation: listed as unused non-droppable = {listed}"
        return False
    for k in range(uses):
        try:
            w = obj._use_wire(None)
            raised = False
        except GuppyComptimeError:
            raised = True
        must_raise = ever_used and not copyable
        if raised != must_raise:
            LAST_DETAIL = f"use #{k + 1} (used before: {ever_used}, copyable: {copyable}) raised={raised}"
            return False
        if not raised:
            if w != "wire":
                return False
            ever_used = True
        listed = obj._id in _ST[0].unused_undroppable_objs
        if listed != ((not droppable) and not ever_used):
            LAST_DETAIL = f"after use #{k + 1}: listed as unused non-droppable = {listed}, ever used = {ever_used}"
            return False
    return True


def h_two_objects(d1: bool, d2: bool, use1: bool, use2: bool) -> bool:
    """
    post: _
    """
    # the leak list is per object: using one value does not clear another one
    _ST[0] = _State()
    a = O.GuppyObject(BoundTypeVar("T", 0, False, d1), "w1")
    b = O.GuppyObject(BoundTypeVar("T", 0, False, d2), "w2")
    if use1:
        a._use_wire(None)
    if use2:
        b._use_wire(None)
    left = set(_ST[0].unused_undroppable_objs)
    want = {o._id for o, d, u in ((a, d1, use1), (b, d2, use2)) if not d and not u}
    return left == want


_SKIP = {"__init__", "__new__", "__class__", "__init_subclass__", "__subclasshook__", "__getattribute__", "__setattr__", "__delattr__",
         "__reduce__", "__reduce_ex__", "__sizeof__", "__dir__", "__format__", "__getstate__", "__class_getitem__", "__doc__", "__hash__"}
METHODS = sorted(n for n in dir(list) if callable(getattr(list, n, None)) and n not in _SKIP)
ARGSETS = [(), (0,), (1,), (5,), (0, 7), (1, 7), ([7, 8],), (slice(0, 1), [9]), (slice(None), []), (-1,), (2,)]
import os
_SH, _NSH = (int(x) for x in os.environ.get("VERIF_C22_SHARD", "0/1").split("/"))
_CASES = [(m, a, n) for m in METHODS for a in range(len(ARGSETS)) for n in range(4)][_SH::_NSH]


def h_frozenlist(case: int) -> bool:
    """
    pre: 0 <= case < len(_CASES)
    post: _
    """
    # (method, argument tuple, length) chosen by the solver; the contents are fixed distinct objects, what matters is
    # whether any call path of `list` still mutates
    global LAST_DETAIL
    name, ai, n = _CASES[realize(case)]
    contents = [10, 20, 30][:n]
    fl = frozenlist(contents)
    before = list(fl)
    try:
        getattr(fl, name)(*ARGSETS[ai])
    except Exception:  # noqa: BLE001   (GuppyComptimeError for the mutators, TypeError / IndexError / ValueError for ill-formed calls)
        pass
    after = [v for v in list.__iter__(fl)]
    if len(after) != len(before) or any(a is not b for a, b in zip(after, before)):   # untouched elements are the very same objects
        with NoTracing():
            LAST_DETAIL = f"frozenlist({before}).{name}{ARGSETS[ai]} changed the contents to {after}"
        return False
    return True


def h_frozenlist_operators(x0: int, x1: int, op: int) -> bool:
    """
    pre: 0 <= op < 6
    post: _
    """
    # statement forms that mutate in place
    fl = frozenlist([x0, x1])
    keep = fl
    try:
        if op == 0:
            fl += [1]
        elif op == 1:
            fl *= 2
        elif op == 2:
            fl[0] = 5
        elif op == 3:
            del fl[0]
        elif op == 4:
            fl[0:1] = [7, 8]
        else:
            del fl[:]
        raised = False
    except GuppyComptimeError:
        raised = True
    return raised and list(keep) == [x0, x1]


INT = NumericType(NumericType.Kind.Int)
from guppylang_internals.tys.builtin import array_type as _array_type
_LIN = BoundTypeVar("Q", 0, False, False)      # stands for a qubit-like field type
_SDEF = CheckedStructDef(DefId.fresh(), "P", None, [], [StructField("x", INT), StructField("y", INT)])
_SDEF2 = CheckedStructDef(DefId.fresh(), "R", None, [], [StructField("x", _array_type(INT, 2)), StructField("y", _LIN)])


def h_struct_setattr(frozen: bool, v: int, which: int, linear_fields: bool) -> bool:
    """
    pre: 0 <= which < 3
    post: _
    """
    # fields of copyable type (int) or of non-copyable type (a classical array, a qubit-like value)
    obj = O.GuppyStructObject(StructType([], _SDEF2 if linear_fields else _SDEF), [1, 2], frozen)
    key = ["x", "y", "nope"][which]
    try:
        setattr(obj, key, v)
        outcome = "stored"
    except GuppyComptimeError:
        outcome = "comptime-error"
    except AttributeError:
        outcome = "attribute-error"
    if which == 2:
        return outcome == "attribute-error" and obj.x == 1 and obj.y == 2
    if frozen:
        return outcome == "comptime-error" and obj.x == 1 and obj.y == 2
    return outcome == "stored" and getattr(obj, key) == v
