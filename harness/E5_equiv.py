"""E5 harness (stage 2 of C03 / C05): CPython's execution of a program's source vs. the interpretation of the *checked* CFGs
the real front end produced for it and for the std functions it reaches (lib/e5.py), for symbolic arguments and symbolic
results of the opaque calls.  Paths on which a 64-bit overflow occurs, which enter the region of a known C04 finding, or
which exhaust the fuel are outside the claim; programs that need a node / callee kind the interpreter has no model for are
skipped and listed."""
import importlib.util
import json
import os
import sys
import lib.repo_env
lib.repo_env.shim()
from lib import e4, e4_corpus, e5
from guppylang_internals.error import GuppyError
from crosshair.tracers import NoTracing
from crosshair.core import realize

KIND = os.environ.get("VERIF_E4_KIND", "c03")
N = int(os.environ.get("VERIF_E4_N", "20"))
SEED = int(os.environ.get("VERIF_E4_SEED", "0"))
BATCH = [int(i) for i in os.environ.get("VERIF_E4_BATCH", "0").split(",")]
FUEL = int(os.environ.get("VERIF_E5_FUEL", "600"))
REGION = os.environ.get("VERIF_E4_REGION") or None
XLO, XHI = -3, 4
RMAX = 1000

if KIND == "c32":
    from lib import e4_syntax
    ALL = e4_syntax.programs()
    EXTRA, MODEXTRA = e4_syntax.EXTRA_ENV, e4_syntax.MODULE_EXTRA
else:
    ALL = e4_corpus.corpus(KIND, N, SEED, REGION)
    EXTRA, MODEXTRA = None, ""
SRCS = [ALL[i] for i in BATCH if i < len(ALL)]
NB = len(SRCS)
_dir = os.environ.get("VERIF_TWIN_DIR") or "/var/tmp"
_tag = f"{BATCH[0]}-{BATCH[-1]}x{len(BATCH)}" + (f"_{REGION}" if REGION else "")
_path = os.path.join(_dir, f"e5mod_{KIND}_{_tag}_{os.getpid()}.py")
with open(_path, "w") as _f:
    _f.write(e4_corpus.module_text(SRCS, MODEXTRA))
_spec = importlib.util.spec_from_file_location(f"e5mod_{os.getpid()}", _path)
MOD = importlib.util.module_from_spec(_spec)
sys.modules[_spec.name] = MOD
_spec.loader.exec_module(MOD)
ENTRIES: list = []      # (native Prog, definition, checked snapshot) or None
VERDICT: list = []
for _src, _d in zip(SRCS, MOD.PROGRAMS):
    try:
        _snap = e5.check_and_snapshot(_d)
        ENTRIES.append((e4.Prog(_src), _d, _snap))
        VERDICT.append(("accepted", ""))
    except GuppyError as _e:
        ENTRIES.append(None)
        VERDICT.append(("rejected", type(_e.error).__name__))
    except Exception as _e:  # noqa: BLE001   (non-Guppy exception of the checker or an un-compilable source: not comparable)
        ENTRIES.append(None)
        VERDICT.append(("crashed", f"{type(_e).__name__}: {_e}"))
UNSUPPORTED: dict = {}
OUTSIDE: dict = {}
LAST_DETAIL = None
import atexit


def _dump():
    try:
        with open(os.path.join(_dir, f"e5report_{KIND}_{_tag}.json"), "w") as f:
            json.dump({"unsupported": {str(k): v for k, v in UNSUPPORTED.items()}, "paths_outside": OUTSIDE,
                       "accepted": sum(v[0] == "accepted" for v in VERDICT), "programs": len(VERDICT)}, f)
    except Exception:  # noqa: BLE001
        pass


atexit.register(_dump)


def _outcome_b(entry, args, rec):
    prog, d, snap = entry
    try:
        return ("ret", e5.run_checked(d, snap, args, rec, FUEL))
    except e4.Panic as p:
        return ("panic", str(p))
    except ZeroDivisionError:
        return ("raises", "ZeroDivisionError")
    except e5.Overflow:
        return ("outside", "overflow")
    except e5.KnownRegion as k:
        return ("outside", "known-region: " + str(k))
    except e5.OutOfFuel:
        return ("outside", "fuel")
    except e5.OutsideIndex:
        return ("outside", "index")
    except e5.Unsupported as u:
        return ("unsupported", str(u))


def h_equiv5(which: int, x: int, y: int, r0: int, r1: int, r2: int, r3: int, r4: int, r5: int, r6: int, r7: int) -> bool:
    """
    pre: 0 <= which < NB
    pre: XLO <= x <= XHI and -1000 <= y <= 1000
    pre: (-RMAX <= r0) & (r0 <= RMAX) & (-RMAX <= r1) & (r1 <= RMAX) & (-RMAX <= r2) & (r2 <= RMAX) & (-RMAX <= r3) & (r3 <= RMAX) & (-RMAX <= r4) & (r4 <= RMAX) & (-RMAX <= r5) & (r5 <= RMAX) & (-RMAX <= r6) & (r6 <= RMAX) & (-RMAX <= r7) & (r7 <= RMAX)
    post: _
    """
    global LAST_DETAIL
    entry = None
    k = 0
    for i in range(NB):
        if which == i:
            entry, k = ENTRIES[i], i
    if entry is None:
        return True
    if "# enumerate: x" in entry[0].src:
        x = realize(x)
    rets = [r0, r1, r2, r3, r4, r5, r6, r7]
    ra, rb = e4.Rec(rets), e4.Rec(rets)
    b = _outcome_b(entry, (x, y), rb)
    if b[0] == "unsupported":
        with NoTracing():
            UNSUPPORTED[BATCH[k]] = b[1]
        return True
    if b[0] == "outside":
        with NoTracing():
            key = b[1].split(":")[0]
            OUTSIDE[key] = OUTSIDE.get(key, 0) + 1
        return True
    a = e4.outcome(entry[0].run_native, (x, y), ra, EXTRA)
    if a != b or ra.trace != rb.trace:
        # (formatted under tracing: the values may still be symbolic here; in the native replay they are concrete)
        LAST_DETAIL = f"program #{BATCH[k]} ({entry[0].name}): CPython {a} with events {ra.trace}; checked program {b} with events {rb.trace}\n{entry[0].src}"
        return False
    return True


def unsupported_report():
    return dict(UNSUPPORTED)
