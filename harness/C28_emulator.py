"""C28 — emulator configurations are immutable and reproducible.
Real code: guppylang/emulator/instance.py (EmulatorInstance, _Options) from /repo, driven against a
recording stand-in for selene's SeleneInstance.  The stand-in computes the *effective* configuration the
way selene_sim.instance.SeleneInstance._get_component_config does: a component's own `random_seed`, if
set, overrides the run-level seed.
Symbolic: a derivation script (which with_*/..._sim method, applied to which earlier instance, with which
value) and whether the base configuration is seeded."""
import os
import lib.repo_env
lib.repo_env.shim()
import guppylang.emulator.instance as M
from guppylang.emulator.instance import EmulatorInstance
from selene_sim.backends.bundled_simulators import Quest

lib.repo_env.assert_repo(M)

PREFIX = [int(x) for x in os.environ.get("VERIF_C28_PREFIX", "").split(",") if x != ""]
NOPS = int(os.environ.get("VERIF_C28_LEN", "2"))
KSET = [int(x) for x in os.environ.get("VERIF_C28_KSET", "0,1,2,3,4,5,6,7,8").split(",")]
NK = len(KSET)


class FakeSelene:
    def __init__(self):
        self.calls = []

    def run_shots(self, **kw):
        def comp(c):
            own = getattr(c, "random_seed", None)
            return (type(c).__name__, own if own is not None else kw["random_seed"])

        self.calls.append((comp(kw["simulator"]), comp(kw["error_model"]), comp(kw["runtime"]),
                           kw["n_qubits"], kw["n_shots"], kw["shot_offset"], kw["shot_increment"],
                           kw["n_processes"], kw["verbose"], kw["timeout"]))
        return iter(())


def eff(inst):
    """Effective configuration of one run() of this instance."""
    fs = FakeSelene()
    object.__setattr__(inst, "_instance", fs)
    inst.run()
    return fs.calls[0]


def derive(parent, kind, v):
    if kind == 0:
        return parent.with_seed(v)
    if kind == 1:
        return parent.with_shots(v + 1)
    if kind == 2:
        return parent.stabilizer_sim()
    if kind == 3:
        return parent.with_shot_offset(v)
    if kind == 4:
        return parent.with_seed(None)
    if kind == 5:
        return parent.with_simulator(Quest(random_seed=10 + v))
    if kind == 6:
        return parent.coinflip_sim().with_shot_increment(v + 1)
    if kind == 8:
        # the *same* user-supplied simulator object handed to several configurations
        return parent.with_simulator(SHARED[v])
    return parent.with_n_qubits(3 + v).statevector_sim()


SHARED: list = [None, None]


def h_script(seeded: bool, k1: int, k2: int, k3: int, k4: int, p2: int, p3: int, p4: int,
             v1: int, v2: int, v3: int, v4: int) -> bool:
    """
    pre: 0 <= k1 < NK and 0 <= k2 < NK and 0 <= k3 < NK and 0 <= k4 < NK
    pre: 0 <= p2 < 2 and 0 <= p3 < 3 and 0 <= p4 < 4
    pre: 0 <= v1 < 2 and 0 <= v2 < 2 and 0 <= v3 < 2 and 0 <= v4 < 2
    post: _
    """
    kinds = (PREFIX + [KSET[k] for k in [k1, k2, k3, k4][len(PREFIX):]])[:NOPS]
    parents = [0, p2, p3, p4][:NOPS]
    vals = [v1, v2, v3, v4][:NOPS]
    base = EmulatorInstance(_instance=FakeSelene(), _n_qubits=2)
    SHARED[0], SHARED[1] = Quest(), Quest(random_seed=5)
    if seeded:
        base = base.with_seed(7)
    insts = [base]
    snaps = [eff(base)]
    for k, p, v in zip(kinds, parents, vals):
        new = derive(insts[p], k, v)
        insts.append(new)
        snaps.append(eff(new))
        # every configuration derived earlier still behaves as it did, and runs reproducibly
        for i, s in zip(insts, snaps):
            if eff(i) != s:
                return False
    return True


def h_seed_takes_effect(seeded: bool, s: int, own: bool) -> bool:
    """
    pre: 0 <= s < 4
    post: _
    """
    # with_seed(s) must actually make every component run with seed s (reproducibility needs the seed to arrive)
    base = EmulatorInstance(_instance=FakeSelene(), _n_qubits=2)
    if own:
        base = base.with_simulator(Quest(random_seed=99))
    if seeded:
        base = base.with_seed(7)
    e = eff(base.with_seed(s))
    return e[0][1] == s and e[1][1] == s and e[2][1] == s and base.with_seed(s).seed == s
