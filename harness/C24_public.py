"""C24 — the two defect shapes of the unitary checker driven through the public API (@guppy(unitary=True) + .check()).
Not a symbolic harness: it is the native confirmation that the block-level counterexamples correspond to real programs.
h_public(i) returns True iff program i is judged as the statement demands."""
import lib.repo_env
lib.repo_env.shim()
import guppylang
from guppylang import guppy
from guppylang.std.quantum import qubit, h, project_z, rz
from guppylang.std.angles import angle
from guppylang_internals.error import GuppyError
from crosshair.tracers import NoTracing
from crosshair.core import realize

guppylang.enable_experimental_features()


@guppy
def meas_angle(q: qubit) -> angle:          # NOT unitary: projective measurement
    return angle(0.5) if project_z(q) else angle(0.0)


@guppy(unitary=True)
def in_stmt(q: qubit, r: qubit) -> None:
    project_z(r)                              # non-unitary call in statement position


@guppy(unitary=True)
def in_cond(q: qubit, r: qubit) -> None:
    if project_z(r):                          # non-unitary call in a branch condition
        h(q)


@guppy(unitary=True)
def in_later_arg(q: qubit, r: qubit) -> None:
    rz(q, meas_angle(r))                      # non-unitary call as an argument after a qubit argument


@guppy(unitary=True)
def fine(q: qubit, r: qubit) -> None:
    h(q)
    rz(r, angle(0.5))


PROGS = [(in_stmt, True), (in_cond, True), (in_later_arg, True), (fine, False)]
LAST_DETAIL = None


def h_public(i: int) -> bool:
    """
    pre: 0 <= i < 4
    post: _
    """
    global LAST_DETAIL
    i = realize(i)
    with NoTracing():   # the whole front end runs concretely; the program index is the only input
        f, must_reject = PROGS[i]
        try:
            f.check()
            rejected = False
        except GuppyError:
            rejected = True
        LAST_DETAIL = f"{f.wrapped.name}: rejected={rejected}, statement demands rejected={must_reject}"
        return rejected == must_reject
