"""C06 — linearity: the real checker's verdict on core-fragment programs vs. the dynamic path oracle of lib/e6.py.
The real `check()` runs concretely on each program of the batch.  Symbolic: the vector of branch decisions.
  soundness     accepted  =>  no decision vector within the bound makes the oracle fault
  completeness  rejected with a linearity error  =>  some decision vector makes the oracle fault (the solver must
                produce it; the condition below states its absence and is expected to be refuted)"""
import ast
import importlib.util
import itertools
import json
import os
import lib.repo_env
from lib import e6

N = int(os.environ.get("VERIF_C06_N", "30"))
SEED = int(os.environ.get("VERIF_C06_SEED", "0"))
DEPTH = int(os.environ.get("VERIF_C06_DEPTH", "2"))
BATCH = [int(i) for i in os.environ.get("VERIF_C06_BATCH", "0").split(",")]
WHICH = int(os.environ.get("VERIF_C06_WHICH", "0"))   # for the completeness condition: position inside the batch
KNOWN_WHY = os.environ.get("VERIF_C06_WHY")           # set by the completeness jobs: the verdict was established in phase 1
L = 10

ALL = e6.corpus(N, SEED, DEPTH)
SRCS = [ALL[i] for i in BATCH if i < len(ALL)]
NB = len(SRCS)
_dir = os.environ.get("VERIF_TWIN_DIR") or "/var/tmp"
_tag = f"{BATCH[0]}-{BATCH[-1]}x{len(BATCH)}"
VERDICT = []
if KNOWN_WHY is None:
    lib.repo_env.shim()
    from guppylang_internals.error import GuppyError
    _path = os.path.join(_dir, f"c06mod_{_tag}_{os.getpid()}.py")
    with open(_path, "w") as _f:
        _f.write(e6.module_text(SRCS))
    _spec = importlib.util.spec_from_file_location(f"c06mod_{os.getpid()}", _path)
    MOD = importlib.util.module_from_spec(_spec)
    import sys
    sys.modules[_spec.name] = MOD     # inspect.getsource of the struct class needs the module to be registered
    _spec.loader.exec_module(MOD)
    for _d in MOD.PROGRAMS:
        try:
            _d.check()
            VERDICT.append(("accepted", ""))
        except GuppyError as _e:
            VERDICT.append(("rejected", type(_e.error).__name__))
        except Exception as _e:  # noqa: BLE001
            VERDICT.append(("crashed", f"{type(_e).__name__}: {_e}"))
    with open(os.path.join(_dir, f"c06verdict_{_tag}.json"), "w") as _f:
        json.dump([{"index": i, "verdict": v[0], "why": v[1], "src": s, "conds": e6.n_conds(s)} for i, v, s in zip(BATCH, VERDICT, SRCS)], _f)
else:
    VERDICT = [("rejected", KNOWN_WHY) if i == WHICH else ("?", "") for i in range(NB)]
FNS = [ast.parse(s).body[0] for s in SRCS]
LAST_DETAIL = None


def h_sound(which: int, c0: bool, c1: bool, c2: bool, c3: bool, c4: bool, c5: bool, c6: bool, c7: bool, c8: bool, c9: bool) -> bool:
    """
    pre: 0 <= which < NB
    post: _
    """
    global LAST_DETAIL
    k = 0
    for i in range(NB):
        if which == i:
            k = i
    if VERDICT[k][0] != "accepted":
        return True
    r = e6.run_oracle(FNS[k], [c0, c1, c2, c3, c4, c5, c6, c7, c8, c9])
    if r.startswith("fault"):
        LAST_DETAIL = f"ACCEPTED by the real checker, but on decisions {[c0, c1, c2, c3, c4, c5, c6, c7, c8, c9]} the path oracle reports {r}:\n{SRCS[k]}"
        return False
    return True


def h_no_fault_on_any_path(c0: bool, c1: bool, c2: bool, c3: bool, c4: bool, c5: bool, c6: bool, c7: bool, c8: bool, c9: bool) -> bool:
    """
    post: _
    """
    # stated for one program (VERIF_C06_WHICH) that the real checker rejected with a linearity error: the solver is
    # expected to refute this by a faulting path
    global LAST_DETAIL
    r = e6.run_oracle(FNS[WHICH], [c0, c1, c2, c3, c4, c5, c6, c7, c8, c9])
    if r.startswith("fault"):
        LAST_DETAIL = f"witness path for {VERDICT[WHICH][1]}: {r}"
        return False
    return True


def h_complete_exhaustive():
    """native re-establishment of 'no decision vector faults' (used only when the solver found no witness): True = a witness
    exists, False = none and no path was cut off by the bound, 'inconclusive' = none within the bound but longer paths exist"""
    global LAST_DETAIL
    cut = False
    for cs in itertools.product([False, True], repeat=L):
        r = e6.run_oracle(FNS[WHICH], list(cs))
        if r.startswith("fault"):
            return True
        cut = cut or r == "out-of-choices"
    if cut:
        LAST_DETAIL = f"no witness with {L} decisions, longer paths exist"
        return "inconclusive"
    LAST_DETAIL = f"REJECTED by the real checker with {VERDICT[WHICH][1]}, but no decision vector of length {L} makes the path oracle fault:\n{SRCS[WHICH]}"
    return False
