"""C15 — overloaded calls pick the first applicable variant.
 (1) kernel: the real OverloadedFunctionDef.check_call / synthesize_call with up to 4 stand-in variants whose own
     check_call / synthesize_call succeed or raise a GuppyError according to symbolic bools: the result is the first
     succeeding variant's, nothing after it is consulted, rejection (OverloadNoMatchError) iff all variants raise, and the
     hint lists every variant's signature.
 (2) programs: real overload sets (arity, numeric coercion, generic and overlapping variants, differing result types) called
     with different argument lists in synthesis and in checking position go through the real check(); the variant found in
     the checked program must be the first one whose *direct* call the real checker accepts, and the call is rejected iff
     no direct call is accepted."""
import ast
import importlib.util
import os
import sys
import lib.repo_env
lib.repo_env.shim()
import guppylang
from guppylang_internals.definition import overloaded as OV
from guppylang_internals.definition.overloaded import OverloadedFunctionDef, OverloadNoMatchError
from guppylang_internals.definition.common import DefId
from guppylang_internals.definition.value import CallableDef
from guppylang_internals.engine import ENGINE
from guppylang_internals.error import GuppyError, GuppyTypeError
from guppylang_internals.nodes import GlobalCall
from guppylang_internals.tys.ty import FunctionType, FuncInput, InputFlags, NoneType, NumericType
from guppylang_internals.ast_util import annotate_location
from guppylang_internals.diagnostic import Error
from dataclasses import dataclass
from typing import ClassVar
from crosshair.tracers import NoTracing
from crosshair.core import realize

lib.repo_env.assert_repo(OV)
INT = NumericType(NumericType.Kind.Int)
_NODE = ast.parse("f()").body[0].value
annotate_location(_NODE, "f()", "<c15>", 1)
LAST_DETAIL = None


@dataclass(frozen=True)
class _Err(Error):
    title: ClassVar[str] = "variant does not apply"


class _Variant(CallableDef):
    def __init__(self, idx, ok, log):
        object.__setattr__(self, "id", DefId.fresh())
        object.__setattr__(self, "name", f"v{idx}")
        object.__setattr__(self, "defined_at", None)
        # every stand-in has the signature the call has (no arguments): whether a variant applies is decided by its own
        # check_call / synthesize_call alone
        object.__setattr__(self, "ty", FunctionType([], NoneType()))
        object.__setattr__(self, "idx", idx)
        object.__setattr__(self, "ok", ok)
        object.__setattr__(self, "log", log)

    description = "function"

    def check_call(self, args, ty, node, ctx):
        self.log.append(("check", self.idx))
        if not self.ok:
            raise GuppyTypeError(_Err(_NODE))
        return ("checked-by", self.idx), {}

    def synthesize_call(self, args, node, ctx):
        self.log.append(("synth", self.idx))
        if not self.ok:
            raise GuppyTypeError(_Err(_NODE))
        return ("synth-by", self.idx), INT


class _Ctx:
    def __init__(self, variants):
        self.globals = {v.id: v for v in variants}


def h_first_applicable(k: int, ok0: bool, ok1: bool, ok2: bool, ok3: bool, checking: bool) -> bool:
    """
    pre: 1 <= k <= 4
    post: _
    """
    global LAST_DETAIL
    oks = [ok0, ok1, ok2, ok3][:k]
    log: list = []
    variants = [_Variant(i, ok, log) for i, ok in enumerate(oks)]
    ov = OverloadedFunctionDef(DefId.fresh(), "ov", None, FunctionType([], NoneType()), [v.id for v in variants])
    ctx = _Ctx(variants)
    try:
        res = ov.check_call([], INT, _NODE, ctx) if checking else ov.synthesize_call([], _NODE, ctx)
        err = None
    except GuppyError as e:
        res, err = None, e.error
    first = next((i for i, ok in enumerate(oks) if ok), None)
    kind = "check" if checking else "synth"
    if first is None:
        if not isinstance(err, OverloadNoMatchError):
            LAST_DETAIL = f"all variants fail but the call is not rejected with OverloadNoMatchError: {res} / {err}"
            return False
        hint = [c for c in err.children]
        sigs = hint[0].variants if hint else []
        if [s for s in sigs] != [v.ty for v in variants]:
            LAST_DETAIL = "the hint does not list every variant's signature in order"
            return False
        return log == [(kind, i) for i in range(k)]
    if err is not None or res is None or res[0][1] != first:
        LAST_DETAIL = f"outcomes {oks}: expected variant {first}, got {res} / {err}"
        return False
    # variants after the chosen one are not consulted, earlier ones exactly once, in order
    return log == [(kind, i) for i in range(first + 1)]


# ====================================================================================== stage 2: real programs
VARIANTS = {
    "v_int": ("x: int", "int"), "v_float": ("x: float", "int"), "v_nat": ("x: nat", "int"), "v_bool": ("x: bool", "int"),
    "v_gen": ("x: T", "int"), "v_two": ("x: int, y: int", "int"), "v_two_f": ("x: float, y: float", "int"), "v_none": ("", "int"),
    "v_tup": ("x: tuple[int, int]", "int"), "v_ret_f": ("x: int", "float"), "v_ret_b": ("x: int", "bool"),
    # variants that accept the first argument (and annotate / coerce it) before failing on a later one
    "v_ib": ("x: int, y: bool", "int"), "v_ni": ("x: nat, y: int", "int"), "v_fb": ("x: float, y: bool", "int"),
    "v_tfb": ("x: tuple[float, bool]", "int"), "v_tni": ("x: tuple[nat, int]", "int"),
}
# variants whose Python function name is the same (`conv`), defined in different scopes: the set is a list of definitions, not of names
SAME_NAME = {"conv_i": ("x: int", "int"), "conv_f": ("x: float", "int"), "conv_t": ("x: tuple[int, int]", "int")}
NESTED = {"ovA": ("v_two", "v_tup"), "ovB": ("v_bool", "v_nat")}      # overload sets used as variants of other sets
SETS = [("ovA", "v_float"), ("v_float", "ovA", "v_int"), ("ovB", "ovA", "v_gen"), ("v_int", "v_float"), ("v_float", "v_int"), ("v_gen", "v_int"), ("v_int", "v_gen"), ("v_two", "v_int", "v_float"), ("v_nat", "v_int", "v_float"),
        ("v_bool", "v_float", "v_gen"), ("v_none", "v_two_f", "v_two"), ("v_ret_b", "v_ret_f", "v_int"), ("v_tup", "v_gen"), ("v_float", "v_nat", "v_tup", "v_none"),
        ("v_ib", "v_ni"), ("v_fb", "v_two"), ("v_tfb", "v_tup"), ("v_ib", "v_two_f", "v_ni"), ("v_tfb", "v_tni", "v_gen"),
        ("conv_i", "conv_f"), ("conv_f", "conv_i", "conv_t"), ("conv_t", "v_bool", "conv_i")]
ARGS = ["1", "1.5", "True", "n", "i", "(1, 2)", "1, 2", "i, 1.5", "", "-1", "1, True", "n, 1", "(1, True)", "(n, 2)"]
POSITIONS = ["synth", "check_int", "check_float", "check_bool"]
_SH, _NSH = (int(x) for x in os.environ.get("VERIF_C15_SHARD", "0/1").split("/"))
CASES = [(s, a, p) for s in range(len(SETS)) for a in range(len(ARGS)) for p in range(len(POSITIONS))][_SH::_NSH]


def _call_stmt(callee, args, pos):
    if pos == 0:
        return f"    r = {callee}({args})\n"
    ann = ["int", "float", "bool"][pos - 1]
    return f"    r: {ann} = {callee}({args})\n"


def _module_text():
    out = ["from guppylang import guppy\nfrom guppylang.std.builtins import nat\nT = guppy.type_var('T')\n\n"]
    for name, (params, ret) in VARIANTS.items():
        out.append(f"@guppy.declare\ndef {name}({params}) -> {ret}: ...\n\n")
    for name, (params, ret) in SAME_NAME.items():
        out.append(f"def _mk_{name}():\n    @guppy.declare\n    def conv({params}) -> {ret}: ...\n    return conv\n\n{name} = _mk_{name}()\n\n")
    for nm, vs in NESTED.items():
        out.append(f"@guppy.overload({', '.join(vs)})\ndef {nm}(): ...\n\n")
    for si, s in enumerate(SETS):
        out.append(f"@guppy.overload({', '.join(s)})\ndef ov{si}(): ...\n\n")
    names = []
    for ci, (s, a, p) in enumerate(CASES):
        out.append(f"@guppy\ndef prog{ci}(i: int, n: nat) -> None:\n" + _call_stmt(f"ov{s}", ARGS[a], p) + "\n")
        names.append(f"prog{ci}")
        for v in SETS[s]:
            out.append(f"@guppy\ndef direct{ci}_{v}(i: int, n: nat) -> None:\n" + _call_stmt(v, ARGS[a], p) + "\n")
    return "".join(out)


with NoTracing():
    _dir = os.environ.get("VERIF_TWIN_DIR") or "/var/tmp"
    _path = os.path.join(_dir, f"c15mod_{_SH}_{os.getpid()}.py")
    with open(_path, "w") as _f:
        _f.write(_module_text())
    _spec = importlib.util.spec_from_file_location(f"c15mod_{os.getpid()}", _path)
    M = importlib.util.module_from_spec(_spec)
    sys.modules[_spec.name] = M
    _spec.loader.exec_module(M)


def _accepted(defn):
    try:
        defn.check()
        return True, None
    except GuppyError as e:
        return False, type(e.error).__name__


def _chosen(defn, ids):
    cfg = ENGINE.checked[defn.id].cfg
    for bb in cfg.bbs:
        for st in bb.statements:
            for n in ast.walk(st):
                if isinstance(n, GlobalCall) and n.def_id in ids:
                    return ids[n.def_id]
    return None


def h_programs(case: int) -> bool:
    """
    pre: 0 <= case < len(CASES)
    post: _
    """
    global LAST_DETAIL
    ci = realize(case)
    with NoTracing():
        s, a, p = CASES[ci]
        direct = [(v, _accepted(getattr(M, f"direct{ci}_{v}"))[0]) for v in SETS[s]]
        want = next((v for v, ok in direct if ok), None)
        prog = getattr(M, f"prog{ci}")
        ok, why = _accepted(prog)
        desc = f"ov{s}{SETS[s]}({ARGS[a]}) in position {POSITIONS[p]}: direct calls {direct}"
        if want is None:
            if ok:
                LAST_DETAIL = f"{desc}: no variant accepts a direct call, but the overloaded call is accepted"
                return False
            return True
        if not ok:
            LAST_DETAIL = f"{desc}: variant {want} accepts a direct call, but the overloaded call is rejected ({why})"
            return False
        ids = {}
        for v in SETS[s]:
            for leaf in NESTED.get(v, (v,)):
                ids.setdefault(getattr(M, leaf).id, v)      # a nested set counts as the variant that contains the leaf
        got = _chosen(prog, ids)
        if got != want:
            LAST_DETAIL = f"{desc}: first applicable variant is {want}, the checked program calls {got}"
            return False
        return True


def h_session() -> bool:
    """every case of this shard, in order, in one interpreter session (native replay of failures that need the earlier cases)"""
    for c in range(len(CASES)):
        if not h_programs(c):
            return False
    return True
