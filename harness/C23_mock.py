"""C23 — comptime tracing leaves the user's module globals untouched.
Real code: tracing/builtins_mock.py:mock_builtins (the only writer of user globals during tracing) and
tracing/state.py:set_tracing_state, nested exactly as trace_function nests them.
Symbolic: which of int/float/len the user module binds (two modules), nesting shape (which module's
function is traced at each of up to three nesting levels), and the level at which an exception is raised."""
import os
import lib.repo_env
lib.repo_env.shim()
from guppylang_internals.tracing import builtins_mock as BM
from guppylang_internals.tracing.builtins_mock import mock_builtins

lib.repo_env.assert_repo(BM)

LEVELS = [int(x) for x in os.environ.get("VERIF_C23_LEVELS", "").split(",") if x != ""]


class Boom(Exception):
    pass


NAMES = ["int", "float", "len"]
SENT_A = [object(), object(), object()]
SENT_B = [object(), object(), object()]


def mk(bits, sent):
    g = {"__builtins__": __builtins__, "other": 42}
    for n, h, s in zip(NAMES, bits, sent):
        if h:
            g[n] = s
    g["tail"] = 7
    f = eval("lambda: (int, float, len)", g)
    return f, g


def _snap(g):
    return [(k, id(v)) for k, v in g.items()]


def _run(funcs, levels, raise_at, depth, seen):
    """Trace funcs[levels[depth]] and, inside it, the next level (comptime calling comptime)."""
    if depth >= len(levels) or levels[depth] == 2:
        return
    f = funcs[levels[depth]]
    with mock_builtins(f):
        # inside the block the traced function must see the mocks
        seen.append(f() == (BM.int, BM.float, BM.len))
        try:
            _run(funcs, levels, raise_at, depth + 1, seen)
        except Boom:
            if depth % 2 == 1:
                raise
        if raise_at == depth + 1:
            raise Boom()


def h_restore(a_int: bool, a_float: bool, a_len: bool, b_int: bool, b_float: bool, b_len: bool,
              l1: int, l2: int, l3: int, raise_at: int) -> bool:
    """
    pre: 0 <= l1 < 2 and 0 <= l2 < 3 and 0 <= l3 < 3 and 0 <= raise_at < 4
    post: _
    """
    levels = LEVELS if LEVELS else [l1, l2, l3]
    fa, ga = mk((a_int, a_float, a_len), SENT_A)
    fb, gb = mk((b_int, b_float, b_len), SENT_B)
    sa, sb = _snap(ga), _snap(gb)
    seen: list = []
    try:
        _run([fa, fb], levels, raise_at, 0, seen)
    except Boom:
        pass
    return _snap(ga) == sa and _snap(gb) == sb and all(seen)


def h_same_dict_two_functions(a_int: int, a_float: int, a_len: int, raise_inner: bool, raise_outer: bool) -> bool:
    """
    pre: 0 <= a_int < 3 and 0 <= a_float < 3 and 0 <= a_len < 3
    post: _
    """
    # two comptime functions of the *same* module calling each other (they share __globals__); each name is unbound,
    # bound to a user object, or bound to the builtin itself
    g = mk2((a_int, a_float, a_len), SENT_A)
    f1 = eval("lambda: (int, float, len)", g)
    f2 = eval("lambda: (len, int)", g)
    s = _snap(g)
    ok = True
    try:
        with mock_builtins(f1):
            try:
                with mock_builtins(f2):
                    ok = ok and f2() == (BM.len, BM.int)
                    if raise_inner:
                        raise Boom()
            except Boom:
                pass
            ok = ok and f1() == (BM.int, BM.float, BM.len)
            if raise_outer:
                raise Boom()
    except Boom:
        pass
    return ok and _snap(g) == s


# ------------------------------------------------------------------------------------------------------------------
# Through the real caller: tracing/function.py:trace_function (it decides *which* functions' globals get mocked).
import functools
import ast as _ast
from guppylang_internals.tracing import function as TF
from guppylang_internals.tys.ty import FunctionType, NoneType
from guppylang_internals.ast_util import annotate_location

lib.repo_env.assert_repo(TF)
_NODE = _ast.parse("f()").body[0].value
annotate_location(_NODE, "f()", "<c23>", 1)
import builtins as _bi
BUILTINS = [_bi.int, _bi.float, _bi.len]


class _Builder:
    """stand-in for the HUGR dataflow builder of a function without inputs; whatever trace_function does with the
    traced result afterwards may fail - the subject is the state of the user's globals when trace_function is left"""

    def inputs(self):
        return []

    def set_outputs(self, *a):
        pass

    def __getattr__(self, name):
        raise AttributeError(name)


def mk2(kinds, sent):
    """User module namespace: per name 0 = not bound, 1 = bound to a user object, 2 = bound to the builtin itself
    (`from builtins import len`, `int = int`)."""
    g = {"__builtins__": __builtins__, "other": 42, "functools": functools, "Boom": Boom}
    for n, k, s, b in zip(NAMES, kinds, sent, BUILTINS):
        if k == 1:
            g[n] = s
        elif k == 2:
            g[n] = b
    g["tail"] = 7
    return g


SRC_PLAIN = "def body(seen, boom):\n    seen.append((int, float, len))\n    if boom:\n        raise Boom()\n"
SRC_DECO = ("def deco(f):\n    @functools.wraps(f)\n    def wrapper(*a):\n        return f(*a)\n    return wrapper\n")


def h_trace_function(k_int: int, k_float: int, k_len: int, shape: int, boom: bool) -> bool:
    """
    pre: 0 <= k_int < 3 and 0 <= k_float < 3 and 0 <= k_len < 3 and 0 <= shape < 4
    post: _
    """
    # shape 0: plain function; 1: behind a functools.wraps decorator defined in the same module; 2: behind a decorator
    # from another module; 3: behind two decorators (same module, then other module)
    g = mk2((k_int, k_float, k_len), SENT_A)
    other = mk2((0, 1, 0), SENT_B)
    exec(SRC_PLAIN, g)
    exec(SRC_DECO, g)
    exec(SRC_DECO, other)
    f = g["body"]
    if shape == 1:
        f = g["deco"](f)
    elif shape == 2:
        f = other["deco"](f)
    elif shape == 3:
        f = other["deco"](g["deco"](f))
    seen: list = []
    sg, so = _snap(g), _snap(other)
    ty = FunctionType([], NoneType())
    try:
        TF.trace_function(_Bound(f, seen, boom), ty, _Builder(), None, _NODE)
    except Exception:  # noqa: BLE001
        pass
    # the body ran once; when the traced callable lives in the body's own module it saw the mocks (guards against a vacuous
    # harness; which modules get mocks behind foreign decorators is not the subject here)
    ok_seen = len(seen) == 1 and (shape >= 2 or seen[0] == (BM.int, BM.float, BM.len))
    return ok_seen and _snap(g) == sg and _snap(other) == so


class _Bound:
    """callable that forwards to f(seen, boom) and exposes f's attributes the way a decorated function does"""

    def __init__(self, f, seen, boom):
        self._f, self._seen, self._boom = f, seen, boom
        self.__globals__ = f.__globals__
        if hasattr(f, "__wrapped__"):
            self.__wrapped__ = f.__wrapped__
        self.__name__ = getattr(f, "__name__", "f")

    def __call__(self):
        return self._f(self._seen, self._boom)
