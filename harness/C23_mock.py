"""C23 — comptime tracing leaves the user's module globals untouched.
Real code: tracing/builtins_mock.py:mock_builtins (the only writer of user globals during tracing) and
tracing/state.py:set_tracing_state, nested exactly as trace_function nests them.
Symbolic: which of int/float/len the user module binds (two modules), nesting shape (which module's
function is traced at each of up to three nesting levels), and the level at which an exception is raised."""
import os
import lib.repo_env
lib.repo_env.shim()
from guppylang_internals.tracing import builtins_mock as BM
from guppylang_internals.tracing.builtins_mock import mock_builtins

lib.repo_env.assert_repo(BM)

LEVELS = [int(x) for x in os.environ.get("VERIF_C23_LEVELS", "").split(",") if x != ""]


class Boom(Exception):
    pass


NAMES = ["int", "float", "len"]
SENT_A = [object(), object(), object()]
SENT_B = [object(), object(), object()]


def mk(bits, sent):
    g = {"__builtins__": __builtins__, "other": 42}
    for n, h, s in zip(NAMES, bits, sent):
        if h:
            g[n] = s
    g["tail"] = 7
    f = eval("lambda: (int, float, len)", g)
    return f, g


def _snap(g):
    return [(k, id(v)) for k, v in g.items()]


def _run(funcs, levels, raise_at, depth, seen):
    """Trace funcs[levels[depth]] and, inside it, the next level (comptime calling comptime)."""
    if depth >= len(levels) or levels[depth] == 2:
        return
    f = funcs[levels[depth]]
    with mock_builtins(f):
        # inside the block the traced function must see the mocks
        seen.append(f() == (BM.int, BM.float, BM.len))
        try:
            _run(funcs, levels, raise_at, depth + 1, seen)
        except Boom:
            if depth % 2 == 1:
                raise
        if raise_at == depth + 1:
            raise Boom()


def h_restore(a_int: bool, a_float: bool, a_len: bool, b_int: bool, b_float: bool, b_len: bool,
              l1: int, l2: int, l3: int, raise_at: int) -> bool:
    """
    pre: 0 <= l1 < 2 and 0 <= l2 < 3 and 0 <= l3 < 3 and 0 <= raise_at < 4
    post: _
    """
    levels = LEVELS if LEVELS else [l1, l2, l3]
    fa, ga = mk((a_int, a_float, a_len), SENT_A)
    fb, gb = mk((b_int, b_float, b_len), SENT_B)
    sa, sb = _snap(ga), _snap(gb)
    seen: list = []
    try:
        _run([fa, fb], levels, raise_at, 0, seen)
    except Boom:
        pass
    return _snap(ga) == sa and _snap(gb) == sb and all(seen)


def h_same_dict_two_functions(a_int: bool, a_float: bool, a_len: bool, raise_inner: bool, raise_outer: bool) -> bool:
    """
    post: _
    """
    # two comptime functions of the *same* module calling each other (they share __globals__)
    f1, g = mk((a_int, a_float, a_len), SENT_A)
    f2 = eval("lambda: (len, int)", g)
    s = _snap(g)
    ok = True
    try:
        with mock_builtins(f1):
            try:
                with mock_builtins(f2):
                    ok = ok and f2() == (BM.len, BM.int)
                    if raise_inner:
                        raise Boom()
            except Boom:
                pass
            ok = ok and f1() == (BM.int, BM.float, BM.len)
            if raise_outer:
                raise Boom()
    except Boom:
        pass
    return ok and _snap(g) == s
