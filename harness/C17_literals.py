"""C17 — integer literals are range-checked and preserved exactly.
Real code: checker/expr_checker.py (_int_bounds_check, python_value_to_guppy_type, _python_list_to_guppy_type),
cfg/builder.py (ExprBuilder.visit_UnaryOp folding of -<const>), compiler/expr_compiler.py (python_value_to_hugr),
std/_internal/compiler/arithmetic.py (UnsignedIntVal) and the installed hugr IntVal encoding.
Symbolic: an unbounded Python int v (z3 Int), the type hint, the nesting shape.

CrossHair's symbolic int does not match `case int(n)` class patterns, so the functions that use `match` are
recompiled from their *current* source with `match` desugared into isinstance chains (lib/astx.py); the
rewrite is checked against the original on concrete values of every branch kind at import time."""
import ast
import lib.repo_env
lib.repo_env.shim()
from lib import astx
import guppylang  # noqa: F401
from guppylang_internals.checker import expr_checker as EC
from guppylang_internals.cfg import builder as B
from guppylang_internals.compiler import expr_compiler as XC
from guppylang_internals.ast_util import annotate_location, set_location_from
from guppylang_internals.error import GuppyTypeError, GuppyError
from guppylang_internals.tys.builtin import int_type, nat_type, float_type, bool_type, is_frozenarray_type, get_element_type
from guppylang_internals.tys.ty import TupleType, NumericType

lib.repo_env.assert_repo(EC, B, XC)

NODE = ast.parse("0", mode="eval").body
annotate_location(NODE, "0", "<lit>", 1)
LO, HI, UHI = -(1 << 63), (1 << 63) - 1, (1 << 64) - 1

# ---- recompile the `match`-using functions with match desugared, in a copy of their module namespace
_g = dict(vars(EC))
_g["python_value_to_guppy_type"] = astx.rebuild(EC.python_value_to_guppy_type, astx.desugar_match, _g)
_g["_python_list_to_guppy_type"] = astx.rebuild(EC._python_list_to_guppy_type, astx.desugar_match, _g)
pv2ty = _g["python_value_to_guppy_type"]
_gx = dict(vars(XC))
_gx["python_value_to_hugr"] = astx.rebuild(XC.python_value_to_hugr, astx.desugar_match, _gx)
pv2hugr = _gx["python_value_to_hugr"]
_gb = dict(vars(B))
fold_neg = astx.rebuild(B.ExprBuilder.visit_UnaryOp, astx.desugar_match, _gb)


def _outcome(f, *a):
    try:
        return ("ok", f(*a))
    except GuppyError as e:
        return ("err", type(e).__name__, type(e.error).__name__)


def _norm(x):
    import re
    return re.sub(r"display_name='T', id=\d+", "display_name='T', id=?", str(x))


def _selfcheck():
    """rewritten == original on concrete values of every branch kind"""
    vals = [True, False, "s", 0, 1, -1, HI, HI + 1, LO, LO - 1, UHI, UHI + 1, 2 ** 70, -2 ** 70, 1.5, None, object(),
            (1, 2), (1, (2, True)), (HI + 1, 0), (), [1, 2], [], [1, 2.0], [HI + 1], [[1], [2]], (None, "x"), {1: 2}]
    hints = [None, int_type(), nat_type(), float_type(), TupleType([nat_type(), int_type()]), TupleType([nat_type(), nat_type()])]
    n = 0
    for v in vals:
        for h in hints:
            a, b = _outcome(EC.python_value_to_guppy_type, v, NODE, None, h), _outcome(pv2ty, v, NODE, None, h)
            if _norm(a) != _norm(b):
                raise AssertionError(f"match desugaring changed python_value_to_guppy_type on {v!r}, {h}: {a} vs {b}")
            n += 1
    for v, t in [(5, int_type()), (5, nat_type()), (-5, int_type()), (True, bool_type()), ("s", None), (1.5, float_type()),
                 ((1, 2), TupleType([int_type(), nat_type()])), (None, None), (object(), None)]:
        a, b = XC.python_value_to_hugr(v, t, None), pv2hugr(v, t, None)
        if repr(a) != repr(b):
            raise AssertionError(f"match desugaring changed python_value_to_hugr on {v!r}")
        n += 1
    for src in ["-5", "-5.5", "-True", "-x", "+5", "~5", "-(-5)", "not 5", "-'s'"]:
        outs = []
        for f in (B.ExprBuilder.visit_UnaryOp, fold_neg):
            e = ast.parse(src, mode="eval").body
            annotate_location(e, src, "<lit>", 1)
            outs.append(ast.dump(f(_FakeBuilder(), e)) if isinstance(e, ast.UnaryOp) else "")
        if outs[0] != outs[1]:
            raise AssertionError(f"match desugaring changed visit_UnaryOp on {src}")
        n += 1
    return n


class _FakeBuilder:
    """stand-in for ExprBuilder's `self`: generic_visit returns the node unchanged"""

    def generic_visit(self, node):
        return node


SELFCHECK_CASES = _selfcheck()


def _accepts(v, hint):
    try:
        return pv2ty(v, NODE, None, hint)
    except GuppyTypeError:
        return "rejected"


def h_bounds_check(v: int, signed: bool) -> bool:
    """
    post: _
    """
    try:
        EC._int_bounds_check(v, NODE, signed)
        ok = True
    except GuppyTypeError as e:
        ok = False
        # the diagnostic says on which side the value fell out
        if e.error.is_underflow != (v < (LO if signed else 0)):
            return False
    return ok == ((LO <= v <= HI) if signed else (0 <= v <= UHI))


def h_literal_type(v: int, hint: int) -> bool:
    """
    pre: 0 <= hint < 4
    post: _
    """
    h = [None, int_type(), nat_type(), float_type()][hint]
    r = _accepts(v, h)
    if hint == 2 and v >= 0:
        # a non-negative literal where nat is expected is a nat literal: accepted iff it fits 64 unsigned bits
        return (r == nat_type()) if v <= UHI else (r == "rejected")
    # everywhere else an integer literal is an int literal: accepted iff it fits 64 signed bits
    return (r == int_type()) if LO <= v <= HI else (r == "rejected")


def h_literal_nested(v: int, w: int, shape: int, hint: int) -> bool:
    """
    pre: 0 <= shape < 4 and 0 <= hint < 3
    post: _
    """
    # the same inside tuple and list constants, with element-wise hints
    eh = [None, int_type(), nat_type()][hint]
    if shape == 0:
        val, hh = (v, w), (TupleType([eh, eh]) if eh is not None else None)
    elif shape == 1:
        val, hh = (w, (v, True)), (TupleType([eh, TupleType([eh, bool_type()])]) if eh is not None else None)
    elif shape == 2:
        val, hh = [v, w], None
    else:
        val, hh = (1.5, v), None
    r = _accepts(val, hh)

    def fits(x):
        if hh is not None and hint == 2 and x >= 0:
            return x <= UHI
        return LO <= x <= HI

    if not (fits(v) and (shape == 3 or fits(w))):
        return r == "rejected"
    if r == "rejected" or r is None:
        return False
    if shape == 2:
        return is_frozenarray_type(r) and get_element_type(r) == int_type()
    leaf = nat_type() if (hh is not None and hint == 2) else int_type()
    leaf_v = leaf if (v >= 0 or leaf == int_type()) else int_type()
    leaf_w = leaf if (w >= 0 or leaf == int_type()) else int_type()
    if shape == 0:
        return r == TupleType([leaf_v, leaf_w])
    if shape == 1:
        return r == TupleType([leaf_w, TupleType([leaf_v, bool_type()])])
    return r == TupleType([float_type(), int_type()])


def h_payload(v: int, as_nat: bool) -> bool:
    """
    pre: (0 <= v <= UHI) if as_nat else (LO <= v <= HI)
    post: _
    """
    # the HUGR constant built for an accepted literal decodes (64-bit, unsigned resp. two's complement) to v
    hv = pv2hugr(v, nat_type() if as_nat else int_type(), None)
    ext = hv.to_value()
    payload = ext.val
    if payload["log_width"] != NumericType.INT_WIDTH or NumericType.INT_WIDTH != 6:
        return False
    raw = payload["value"]
    if not (0 <= raw <= UHI):
        return False
    decoded = raw if as_nat else (raw - (1 << 64) if raw >= (1 << 63) else raw)
    return decoded == v and hv.v == v


def h_payload_nested(v: int, w: int) -> bool:
    """
    pre: LO <= v <= HI and 0 <= w <= UHI
    post: _
    """
    hv = pv2hugr((v, (w, True)), TupleType([int_type(), TupleType([nat_type(), bool_type()])]), None)
    a, inner = hv.vals
    b = inner.vals[0]
    ra, rb = a.to_value().val["value"], b.to_value().val["value"]
    return (ra - (1 << 64) if ra >= (1 << 63) else ra) == v and rb == w


def h_negation_fold(v: int, kind: int) -> bool:
    """
    pre: 0 <= kind < 8
    post: _
    """
    # `-<constant>` folds to the constant -c exactly (ints and floats); every other operand is left alone
    if kind == 0:
        operand, expect = ast.Constant(value=v), -v
    elif kind == 1:
        operand, expect = ast.Constant(value=True if v > 0 else False), -(1 if v > 0 else 0)
    elif kind == 2:
        operand, expect = ast.Constant(value=2.5), -2.5
    elif kind == 3:
        operand, expect = ast.Name(id="x", ctx=ast.Load()), None
    else:
        operand, expect = ast.Constant(value="s"), None
    op = ast.USub()
    if kind >= 5:
        # other unary operators applied to a constant are not folded
        op = [ast.UAdd(), ast.Invert(), ast.Not()][kind - 5]
        operand, expect = ast.Constant(value=v), None
    node = ast.UnaryOp(op=op, operand=operand)
    for n in (node, operand):
        set_location_from(n, NODE)
    out = fold_neg(_FakeBuilder(), node)
    if expect is None:
        return out is node and node.operand is operand
    return isinstance(out, ast.Constant) and out.value == expect and type(out.value) is not bool


def _all_nodes(n):
    yield n
    for c in ast.iter_child_nodes(n):
        yield from _all_nodes(c)


def h_negation_in_program(v: int, shape: int) -> bool:
    """
    pre: 0 <= shape < 4
    post: _
    """
    # The same source literal can be reached twice by the builder (a chained comparison shares its middle operand between
    # the two generated comparisons; an augmented assignment / conditional expression re-visits sub-expressions): every
    # occurrence in the built CFG must still be exactly -v.  Runs the real CFGBuilder on a program built around `-v`.
    import inspect
    from guppylang_internals.checker.core import Globals

    def lit():
        return ast.UnaryOp(op=ast.USub(), operand=ast.Constant(value=v))

    a, b = ast.Name(id="a", ctx=ast.Load()), ast.Name(id="b", ctx=ast.Load())
    if shape == 0:      # return a < -v < b
        body = [ast.Return(value=ast.Compare(left=a, ops=[ast.Lt(), ast.Lt()], comparators=[lit(), b]))]
        want = 2
    elif shape == 1:    # return a < -v <= b < -v   (two literals, the first one shared)
        body = [ast.Return(value=ast.Compare(left=a, ops=[ast.Lt(), ast.LtE(), ast.Lt()], comparators=[lit(), b, lit()]))]
        want = 3
    elif shape == 2:    # if a < -v < b: return -v  else: return a
        body = [ast.If(test=ast.Compare(left=a, ops=[ast.Lt(), ast.Lt()], comparators=[lit(), b]),
                       body=[ast.Return(value=lit())], orelse=[ast.Return(value=a)])]
        want = 3
    else:               # x = -v; return x + (-v)
        body = [ast.Assign(targets=[ast.Name(id="x", ctx=ast.Store())], value=lit()),
                ast.Return(value=ast.BinOp(left=ast.Name(id="x", ctx=ast.Load()), op=ast.Add(), right=lit()))]
        want = 2
    mod = ast.Module(body=body, type_ignores=[])
    for n in _all_nodes(mod):
        if isinstance(n, (ast.expr, ast.stmt)):
            set_location_from(n, NODE)
    orig = B.ExprBuilder.visit_UnaryOp
    B.ExprBuilder.visit_UnaryOp = fold_neg
    try:
        cfg = B.CFGBuilder().build(body, False, Globals(inspect.currentframe()))
    finally:
        B.ExprBuilder.visit_UnaryOp = orig
    found = []
    for bb in cfg.bbs:
        for root in [*bb.statements, *([bb.branch_pred] if bb.branch_pred is not None else [])]:
            for n in _all_nodes(root):
                if isinstance(n, ast.Constant) and isinstance(n.value, int) and not isinstance(n.value, bool):
                    found.append(n.value)
                if isinstance(n, ast.UnaryOp) and isinstance(n.op, ast.USub):
                    return False      # a negated literal that was not folded
    return len(found) == want and all(x == -v for x in found)
