"""C33 — experimental-feature gate.  Real code: guppylang_internals/experimental.py and the gate
call sites in the real front end.  Symbolic: the initial flag and a script of operations."""
import os
import lib.repo_env
lib.repo_env.shim()
import guppylang_internals.experimental as E
from guppylang_internals.error import GuppyError
from guppylang_internals.checker.errors.generic import UnsupportedError

lib.repo_env.assert_repo(E)

FIRST = [int(x) for x in os.environ.get("VERIF_C33_PREFIX", "").split(",") if x != ""]
NOPS = int(os.environ.get("VERIF_C33_LEN", "4"))


from guppylang_internals.span import Loc, Span
_LOC = Span(Loc('f', 1, 0), Loc('f', 1, 1))


class Boom(Exception):
    pass


GATES = [
    (E.check_lists_enabled, E.ExperimentalFeatureError),
    (E.check_function_tensors_enabled, E.ExperimentalFeatureError),
    (E.check_modifiers_enabled, E.ExperimentalFeatureError),
    (E.check_capturing_closures_enabled, UnsupportedError),
]


def gates_agree(model: bool) -> bool:
    """Each check_* raises a GuppyError of the right kind iff the flag is off."""
    for gate, kind in GATES:
        try:
            gate(_LOC)
            is_open = True
        except GuppyError as e:
            is_open = False
            if not isinstance(e.error, kind):
                return False
        if is_open != model:
            return False
    return True


def _step(o: int, stack: list, model: bool) -> bool:
    # 0 = `with enable():` entered, 1 = `with disable():` entered, 2 = innermost block exits normally,
    # 3 = innermost block exits by exception, 4 = bare enable() call, 5 = bare disable() call, 6 = nothing
    if o == 0:
        c = E.enable_experimental_features()
        c.__enter__()
        stack.append((c, model))
        return True
    if o == 1:
        c = E.disable_experimental_features()
        c.__enter__()
        stack.append((c, model))
        return False
    if o == 2 and stack:
        c, prev = stack.pop()
        c.__exit__(None, None, None)
        return prev
    if o == 3 and stack:
        c, prev = stack.pop()
        e = Boom()
        c.__exit__(Boom, e, None)
        return prev
    if o == 4:
        E.enable_experimental_features()
        return True
    if o == 5:
        E.disable_experimental_features()
        return False
    return model


def h_script(init: bool, a: int, b: int, c: int, d: int, e: int, f: int) -> bool:
    """
    pre: 0 <= a < 7 and 0 <= b < 7 and 0 <= c < 7 and 0 <= d < 7 and 0 <= e < 7 and 0 <= f < 7
    post: _
    """
    ops = (FIRST + [a, b, c, d, e, f])[:NOPS]
    E.EXPERIMENTAL_FEATURES_ENABLED = init
    stack: list = []
    model = init
    for o in ops:
        model = _step(o, stack, model)
        if E.EXPERIMENTAL_FEATURES_ENABLED != model:
            return False
        if not gates_agree(model):
            return False
    # unwind what is still open, innermost first: the initial setting must come back if only
    # context managers were used
    while stack:
        cm, prev = stack.pop()
        cm.__exit__(None, None, None)
        model = prev
        if E.EXPERIMENTAL_FEATURES_ENABLED != model:
            return False
    return True


def h_with_statement(init: bool, inner_enable: bool, outer_enable: bool, raise_inner: bool, raise_outer: bool) -> bool:
    """
    post: _
    """
    # the same through real `with` statements, nested, with exceptions
    E.EXPERIMENTAL_FEATURES_ENABLED = init
    outer = E.enable_experimental_features if outer_enable else E.disable_experimental_features
    inner = E.enable_experimental_features if inner_enable else E.disable_experimental_features
    ok = True
    try:
        with outer():
            ok = ok and gates_agree(outer_enable)
            try:
                with inner():
                    ok = ok and gates_agree(inner_enable)
                    if raise_inner:
                        raise Boom()
            except Boom:
                pass
            ok = ok and gates_agree(outer_enable)
            if raise_outer:
                raise Boom()
    except Boom:
        pass
    return ok and E.EXPERIMENTAL_FEATURES_ENABLED == init and gates_agree(init)
