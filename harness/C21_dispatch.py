"""C21 — comptime functions agree with regular Guppy functions: operator dispatch.
Both sides are /repo's real code:
  comptime:  Python's operator protocol applied to objects of the real DunderMixin (tracing/object.py), i.e. the real
             dunder methods with their binary_operation / unary_operation fall-back wrappers;
  regular:   the real ExprSynthesizer._synthesize_binary / visit_UnaryOp path (checker/expr_checker.py) driven with a
             recording stand-in for `ctx.globals.get_instance_func`.
Symbolic: the operator, which operand is a runtime (traced) value and which a Python constant, and whether the first
and the reflected method type-check.  Recorded on both sides: (receiver, method name, argument).  Each successful call
is mapped to what it *means* with a table written here from the Python data model (`r.__rsub__(a)` means `a - r`, ...);
asserted: both sides mean the source expression `left OP right`, and both reject iff no method applies."""
import ast
import operator
import lib.repo_env
lib.repo_env.shim()
import guppylang  # noqa: F401
import guppylang_internals.tracing.object as O
import guppylang_internals.tracing.unpacking as U
import guppylang_internals.tracing.state as S
from guppylang_internals.checker import expr_checker as EC
from guppylang_internals.error import GuppyError, GuppyComptimeError, GuppyTypeError
from guppylang_internals.diagnostic import Error
from dataclasses import dataclass
from typing import ClassVar

lib.repo_env.assert_repo(O, EC)

# ---- the Python data model, written down independently of /repo's tables: op -> (dunder, reflected dunder, python function)
REF = [
    (ast.Add, "__add__", "__radd__", operator.add), (ast.Sub, "__sub__", "__rsub__", operator.sub),
    (ast.Mult, "__mul__", "__rmul__", operator.mul), (ast.Div, "__truediv__", "__rtruediv__", operator.truediv),
    (ast.FloorDiv, "__floordiv__", "__rfloordiv__", operator.floordiv), (ast.Mod, "__mod__", "__rmod__", operator.mod),
    (ast.Pow, "__pow__", "__rpow__", operator.pow), (ast.LShift, "__lshift__", "__rlshift__", operator.lshift),
    (ast.RShift, "__rshift__", "__rrshift__", operator.rshift), (ast.BitOr, "__or__", "__ror__", operator.or_),
    (ast.BitXor, "__xor__", "__rxor__", operator.xor), (ast.BitAnd, "__and__", "__rand__", operator.and_),
    (ast.Eq, "__eq__", "__eq__", operator.eq), (ast.NotEq, "__ne__", "__ne__", operator.ne),
    (ast.Lt, "__lt__", "__gt__", operator.lt), (ast.LtE, "__le__", "__ge__", operator.le),
    (ast.Gt, "__gt__", "__lt__", operator.gt), (ast.GtE, "__ge__", "__le__", operator.ge),
]
NOPS = len(REF)
# meaning of a call recv.name(arg) as (canonical operator, recv is the left operand?)
MEANING = {}
for _op, _l, _r, _f in REF:
    MEANING.setdefault(_l, (_op.__name__, True))
for _op, _l, _r, _f in REF:
    MEANING.setdefault(_r, (_op.__name__, False))
_CANON = {"Gt": ("Lt", True), "GtE": ("LtE", True), "Eq": ("Eq", False), "NotEq": ("NotEq", False)}


def meaning(recv, name, arg):
    """(operator, left operand, right operand) denoted by a successful `recv.name(arg)`; None for a name that is no
    binary dunder at all."""
    if name not in MEANING:
        return None
    opn, recv_left = MEANING[name]
    l, r = (recv, arg) if recv_left else (arg, recv)
    if opn in ("Gt", "GtE"):           # a > b  ==  b < a
        opn, (l, r) = _CANON[opn][0], (r, l)
    if opn in ("Eq", "NotEq"):         # symmetric
        l, r = sorted((l, r))
    return opn, l, r


def source_meaning(k, left, right):
    opn = REF[k][0].__name__
    l, r = left, right
    if opn in ("Gt", "GtE"):
        opn, (l, r) = _CANON[opn][0], (r, l)
    if opn in ("Eq", "NotEq"):
        l, r = sorted((l, r))
    return opn, l, r


# ---------------------------------------------------------------------------------- comptime side
from guppylang_internals.ast_util import annotate_location

_NODE = ast.parse("x + y").body[0].value
annotate_location(_NODE, "x + y", "<c21>", 1)


class _Dfg:
    builder = None


class _CCtx:
    checked_globals = None


# a *real* TracingState object (so that fields the tracer adds to it exist with their defaults); only the compiler context
# and the dataflow container behind it are stand-ins
FakeState = S.TracingState(_CCtx(), _Dfg(), _NODE)
O.get_tracing_state = lambda: FakeState
S.get_tracing_state = lambda: FakeState
U.get_tracing_state = lambda: FakeState   # (lambdas read the current global)


class Probe(O.DunderMixin):
    LOG: ClassVar[list] = []
    FAIL: ClassVar[set] = set()
    __hash__ = None

    def __init__(self, tag):
        self.tag = tag
        self._ty = tag

    def __getattr__(self, name):
        if name.startswith("__") and name.endswith("__"):
            def call(*xs):
                Probe.LOG.append((self.tag, name, tuple(getattr(x, "tag", x) for x in xs)))
                if (self.tag, name) in Probe.FAIL:
                    raise GuppyTypeError(_Err(_NODE))
                return "ok"
            return call
        raise AttributeError(name)


@dataclass(frozen=True)
class _Err(Error):
    title: ClassVar[str] = "does not type check"


def _from_py(v, *a, **k):
    return v if isinstance(v, Probe) else Probe("c")   # Python constants become constant objects


_ORIG_FROM_PY = U.guppy_object_from_py      # the real conversion, used by h_constants
U.guppy_object_from_py = _from_py


def run_comptime(k, traced_left, traced_right, fail_first, fail_second):
    """Evaluate `left OP right` the way a comptime function body does (plain Python on DunderMixin objects)."""
    _, lop, rop, fn = REF[k]
    Probe.LOG = []
    left = Probe("x") if traced_left else 2
    right = Probe("y") if traced_right else 3
    lt, rt = ("x" if traced_left else "c"), ("y" if traced_right else "c")
    # which (receiver, method) pairs fail to type check: the direct method on the left operand / the reflected on the right
    Probe.FAIL = set()
    if fail_first:
        Probe.FAIL.add((lt, lop))
    if fail_second:
        Probe.FAIL.add((rt, rop))
    try:
        fn(left, right)
        ok = True
    except (GuppyError, GuppyComptimeError, TypeError):
        ok = False
    succ = [(r, n, a[0]) for (r, n, a) in Probe.LOG if (r, n) not in Probe.FAIL and len(a) == 1]
    return ok, (succ[-1] if ok and succ else None), list(Probe.LOG)


# ---------------------------------------------------------------------------------- regular side
class _Func:
    def __init__(self, ty, name, log, fail):
        self.ty, self.name, self.log, self.fail = ty, name, log, fail

    def synthesize_call(self, args, node, ctx):
        self.log.append((self.ty, self.name, (args[1].tag,)))
        if (self.ty, self.name) in self.fail:
            raise GuppyTypeError(_Err(_NODE))
        return node, "ok"


class _Globals:
    def __init__(self, log, fail):
        self.log, self.fail = log, fail

    def get_instance_func(self, ty, name):
        return _Func(ty, name, self.log, self.fail)


class _Ctx:
    def __init__(self, log, fail):
        self.globals = _Globals(log, fail)


class _Operand(ast.expr):
    _fields = ("tag",)


class _Synth:
    """stand-in for the ExprSynthesizer instance: operands synthesize to their tag as 'type'"""

    def __init__(self, log, fail):
        self.ctx = _Ctx(log, fail)

    def synthesize(self, e):
        return e, e.tag


def run_regular(k, traced_left, traced_right, fail_first, fail_second):
    opcls, lop, rop, _ = REF[k]
    lt, rt = ("x" if traced_left else "c"), ("y" if traced_right else "c")
    log, fail = [], set()
    if fail_first:
        fail.add((lt, lop))
    if fail_second:
        fail.add((rt, rop))
    node = _NODE
    try:
        EC.ExprSynthesizer._synthesize_binary(_Synth(log, fail), _Operand(tag=lt), _Operand(tag=rt), opcls(), node)
        ok = True
    except GuppyError:
        ok = False
    succ = [(r, n, a[0]) for (r, n, a) in log if (r, n) not in fail]
    return ok, (succ[-1] if ok and succ else None), log


LAST_DETAIL = None


def h_binary(k: int, traced_left: bool, traced_right: bool, fail_first: bool, fail_second: bool) -> bool:
    """
    pre: 0 <= k < NOPS
    pre: traced_left or traced_right
    post: _
    """
    global LAST_DETAIL
    lt, rt = ("x" if traced_left else "c"), ("y" if traced_right else "c")
    want = source_meaning(k, lt, rt)
    ok_c, call_c, log_c = run_comptime(k, traced_left, traced_right, fail_first, fail_second)
    ok_r, call_r, log_r = run_regular(k, traced_left, traced_right, fail_first, fail_second)
    LAST_DETAIL = f"{lt} {REF[k][0].__name__} {rt}: comptime {log_c} ok={ok_c}; regular {log_r} ok={ok_r}"
    # acceptance: some applicable method exists <=> not (both fail).  For == and != on equal receivers lop == rop.
    must_ok = not (fail_first and fail_second)
    if REF[k][1] == REF[k][2] and lt == rt:
        must_ok = not (fail_first or fail_second)
    if ok_r != must_ok or ok_c != must_ok:
        return False
    if not must_ok:
        return True
    return meaning(*call_r) == want and meaning(*call_c) == want


UNARY = [("__neg__", operator.neg), ("__pos__", operator.pos), ("__invert__", operator.invert), ("__abs__", abs),
         ("__bool__", bool), ("__int__", int), ("__float__", float)]


def h_unary(k: int, fails: bool) -> bool:
    """
    pre: 0 <= k < len(UNARY)
    post: _
    """
    global LAST_DETAIL
    name, fn = UNARY[k]
    Probe.LOG, Probe.FAIL = [], ({("x", name)} if fails else set())
    try:
        fn(Probe("x"))
        ok = True
    except (GuppyError, GuppyComptimeError, TypeError):
        ok = False
    LAST_DETAIL = f"{name}: {Probe.LOG} ok={ok}"
    if not Probe.LOG or Probe.LOG[0][:2] != ("x", name):
        return False
    # the regular checker resolves -x +x ~x through unary_table; the table must name the same dunder
    for opcls, (dn, _disp) in EC.unary_table.items():
        py = {ast.USub: "__neg__", ast.UAdd: "__pos__", ast.Invert: "__invert__"}[opcls]
        if dn != py:
            return False
    return ok == (not fails) or name in ("__bool__", "__int__", "__float__", "__abs__")


def h_every_dunder(i: int) -> bool:
    """
    pre: 0 <= i < len(ALL_DUNDERS)
    post: _
    """
    # every dunder the mixin defines asks the object for the method of the same name first
    global LAST_DETAIL
    name = ALL_DUNDERS[i]
    Probe.LOG, Probe.FAIL = [], set()
    m = getattr(O.DunderMixin, name)
    try:
        if name in MEANING or name in ("__divmod__", "__rdivmod__", "__matmul__", "__rmatmul__"):
            m(Probe("x"), Probe("y"))
        else:
            m(Probe("x"))
    except (GuppyError, GuppyComptimeError, TypeError):
        pass
    LAST_DETAIL = f"{name}: {Probe.LOG}"
    return bool(Probe.LOG) and Probe.LOG[0][:2] == ("x", name)


ALL_DUNDERS = sorted(n for n, v in vars(O.DunderMixin).items() if n.startswith("__") and n.endswith("__") and callable(v)
                     and n not in ("__init__", "__hash__", "__class__", "__init_subclass__", "__subclasshook__"))


def h_tables(k: int) -> bool:
    """
    pre: 0 <= k < NOPS
    post: _
    """
    # /repo's operator table agrees with the Python data model for every operator both modes support
    opcls, lop, rop, _ = REF[k]
    e = EC.binary_table.get(opcls)
    return e is not None and e[0] == lop and e[1] == rop


# ------------------------------------------------------------------------------------------------------------------
# Python constants entering a traced computation: each becomes a Guppy value whose type and payload are determined by the
# constant alone — not by which other constants were converted earlier in the same tracing session.
import math as _math
import guppylang_internals.tracing.unpacking as _U0   # (the module object; its guppy_object_from_py was saved before the stand-in above)
from guppylang_internals.tys.ty import NumericType as _NT

_REAL_FROM_PY = None


class _Wire:
    def __init__(self, val):
        self.val = val


class _ConstBuilder:
    def __init__(self):
        self.loaded = []

    def load(self, val):
        self.loaded.append(val)
        return _Wire(val)


CONSTS = [2, 2.0, 1, True, 0.0, -0.0, 0, False, 3, 1.0]


def _fresh_state():
    """a new tracing session: a fresh real TracingState"""
    global FakeState
    FakeState = S.TracingState(_CCtx(), _Dfg(), _NODE)


def _describe(obj):
    ty = str(obj._ty)
    v = obj._wire.val
    try:
        payload = v.to_value().val if hasattr(v, "to_value") else None
    except Exception:  # noqa: BLE001
        payload = None
    return ty, repr(v)


def h_constants(case: int) -> bool:
    """
    pre: 0 <= case < len(CONSTS) * len(CONSTS)
    post: _
    """
    # every ordered pair of constants (then the first one again) in one session
    global LAST_DETAIL
    from crosshair.core import realize as _realize
    from crosshair.tracers import NoTracing as _NoTracing
    case = _realize(case)
    i, j = case // len(CONSTS), case % len(CONSTS)
    k = i
    with _NoTracing():
        want_ty = {bool: "bool", int: "int", float: "float"}
        alone = {}
        for idx in {i, j, k}:
            b = _ConstBuilder()
            _fresh_state()
            o = _ORIG_FROM_PY(CONSTS[idx], b, _NODE, None)
            alone[idx] = _describe(o)
            if alone[idx][0] != want_ty[type(CONSTS[idx])]:
                LAST_DETAIL = f"constant {CONSTS[idx]!r} becomes a Guppy value of type {alone[idx][0]}"
                return False
        b = _ConstBuilder()
        _fresh_state()
        seq = [_describe(_ORIG_FROM_PY(CONSTS[idx], b, _NODE, None)) for idx in (i, j, k)]
        for idx, got in zip((i, j, k), seq):
            if got != alone[idx]:
                LAST_DETAIL = (f"in the sequence {[CONSTS[x] for x in (i, j, k)]!r} the constant {CONSTS[idx]!r} becomes {got}, "
                               f"on its own it becomes {alone[idx]}")
                return False
        return True
