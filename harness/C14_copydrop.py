"""C14 — copy/drop classification is structural and matches HUGR bounds.
Real code: tys/ty.py (copyable/droppable/hugr_bound of every type class), tys/builtin.py (never_* flags of
the builtin defs), definition/struct.py (CheckedStructDef/StructField), compiler/core.py:requires_drop,
to_hugr(...).type_bound() through the installed hugr.
Symbolic: the (copyable, droppable) bounds of two type-variable leaves, the constructor(s), leaf choices.
One constructor layer over arbitrary children is the induction step for arbitrary nesting; a second
layer is run as a cross-check."""
import os
import lib.repo_env
lib.repo_env.shim()
from hugr import tys as ht
from guppylang.std.quantum import qubit as _qubit_def
from guppylang_internals.engine import DEF_STORE
from guppylang_internals.tys import ty as _ty_mod
from guppylang_internals.tys.ty import (BoundTypeVar, ExistentialTypeVar, FuncInput, FunctionType, InputFlags,
                                        NoneType, NumericType, OpaqueType, StructType, TupleType)
from guppylang_internals.tys.builtin import (array_type, bool_type, frozenarray_type, list_type, option_type,
                                             sized_iter_type, string_type)
from guppylang_internals.tys.param import TypeParam
from guppylang_internals.tys.arg import TypeArg, ConstArg
from guppylang_internals.tys.const import ConstValue
from guppylang_internals.definition.struct import CheckedStructDef, StructField
from guppylang_internals.definition.common import DefId
from guppylang_internals.compiler.core import requires_drop
from guppylang_internals.tys.common import QuantifiedToHugrContext
from crosshair.tracers import NoTracing

lib.repo_env.assert_repo(_ty_mod)

K1 = os.environ.get("VERIF_C14_K1")
K1 = int(K1) if K1 not in (None, "") else None
NCON = 12

INT = NumericType(NumericType.Kind.Int)
NAT = NumericType(NumericType.Kind.Nat)
FLOAT = NumericType(NumericType.Kind.Float)
QUBIT = OpaqueType([], DEF_STORE.raw_defs[_qubit_def.id])
X = BoundTypeVar("X", 0, False, False)
XP = [TypeParam(0, "X", False, False)]
S_GEN = CheckedStructDef(DefId.fresh(), "S", None, XP, [StructField("f", X), StructField("g", INT)])
S_QUBIT = CheckedStructDef(DefId.fresh(), "Q", None, [], [StructField("q", QUBIT), StructField("n", INT)])
S_ARR = CheckedStructDef(DefId.fresh(), "A", None, XP, [StructField("xs", array_type(X, 2))])


_CALLS = [0]


def fresh_idx() -> int:
    """A parameter index not used by any earlier harness call in this process: hidden state keyed on an index (a cache,
    say) cannot leak from one explored path into the next, so every counterexample replays in a fresh process."""
    with NoTracing():
        _CALLS[0] += 2
        return _CALLS[0]


def leaf(sel, a, b, fa, fb):
    """(type, copyable, droppable) of a leaf."""
    if sel == 0:
        return a, fa[0], fa[1]
    if sel == 1:
        return b, fb[0], fb[1]
    if sel == 2:
        return INT, True, True
    return QUBIT, False, False


def build(k, x, y):
    """One constructor layer over children x, y given as (type, c, d).  Expected flags follow the
    statement: structural, arrays never copyable, functions always both."""
    (tx, cx, dx), (ty_, cy, dy) = x, y
    if k == 0:
        return TupleType([tx, ty_]), cx and cy, dx and dy
    if k == 1:
        return TupleType([tx, ty_, INT]), cx and cy, dx and dy
    if k == 2:
        return array_type(tx, 3), False, dx
    if k == 3:
        return option_type(tx), cx, dx
    if k == 4:
        if not cx:
            return None  # frozenarray elements must be copyable: not a well-formed type
        return frozenarray_type(tx, 2), cx, dx
    if k == 5:
        return list_type(tx), cx, dx
    if k == 6:
        return FunctionType([FuncInput(tx, InputFlags.NoFlags)], ty_), True, True
    if k == 7:
        return StructType([TypeArg(tx)], S_GEN), cx, dx
    if k == 8:
        return StructType([], S_QUBIT), False, False
    if k == 9:
        return StructType([TypeArg(tx)], S_ARR), False, dx
    if k == 10:
        return sized_iter_type(tx, 3), cx, dx
    return TupleType([]), True, True


def agrees(t, c, d, params) -> bool:
    if t.copyable != c or t.droppable != d:
        return False
    if t.linear != (not c and not d) or t.affine != (not c and d):
        return False
    if (t.hugr_bound == ht.TypeBound.Copyable) != c:
        return False
    h = t.to_hugr(QuantifiedToHugrContext(params))
    if (h.type_bound() == ht.TypeBound.Copyable) != c:
        return False
    rd = requires_drop(h)   # asked for every type, as insert_drops does for every port; only "affine => drop" is demanded
    if (d and not c) and not rd:
        return False
    return True


def h_layer1(k: int, xs: int, ys: int, ca: bool, da: bool, cb: bool, db: bool) -> bool:
    """
    pre: 0 <= k < NCON and 0 <= xs < 4 and 0 <= ys < 4
    pre: K1 is None or k == K1
    post: _
    """
    i0 = fresh_idx()
    a, b = BoundTypeVar("T0", i0, ca, da), BoundTypeVar("T1", i0 + 1, cb, db)
    params = [TypeParam(i0, "T0", ca, da), TypeParam(i0 + 1, "T1", cb, db)]
    x = leaf(xs, a, b, (ca, da), (cb, db))
    y = leaf(ys, a, b, (ca, da), (cb, db))
    r = build(k, x, y)
    if r is None:
        return True
    t, c, d = r
    return agrees(t, c, d, params)


def h_layer2(k1: int, k2: int, xs: int, ys: int, ca: bool, da: bool, cb: bool, db: bool) -> bool:
    """
    pre: 0 <= k1 < NCON and 0 <= k2 < NCON and 0 <= xs < 2 and 0 <= ys < 4
    pre: K1 is None or k1 == K1
    post: _
    """
    i0 = fresh_idx()
    a, b = BoundTypeVar("T0", i0, ca, da), BoundTypeVar("T1", i0 + 1, cb, db)
    params = [TypeParam(i0, "T0", ca, da), TypeParam(i0 + 1, "T1", cb, db)]
    x = leaf(xs, a, b, (ca, da), (cb, db))
    y = leaf(ys, a, b, (ca, da), (cb, db))
    inner = build(k2, x, y)
    if inner is None:
        return True
    r = build(k1, inner, y)
    if r is None:
        return True
    t, c, d = r
    return agrees(t, c, d, params)


def h_sequence(k1: int, k2: int, c1: bool, d1: bool, c2: bool, d2: bool) -> bool:
    """
    pre: 0 <= k1 < NCON and 0 <= k2 < NCON
    pre: K1 is None or k1 == K1
    post: _
    """
    # two classifications in one session: the same parameter index and name with *different* bounds, one after the
    # other (what two generic functions compiled in a row look like).  The second answer must not depend on the first.
    i0 = fresh_idx()
    for k, c, d in ((k1, c1, d1), (k2, c2, d2)):
        v = BoundTypeVar("T", i0, c, d)
        r = build(k, (v, c, d), (INT, True, True))
        if r is None:
            continue
        t, ec, ed = r
        if not agrees(t, ec, ed, [TypeParam(i0, "T", c, d)]):
            return False
    return True


def h_existential(k: int, ca: bool, da: bool) -> bool:
    """
    pre: 0 <= k < NCON
    post: _
    """
    # inference variables carry their bound the same way (no HUGR form exists for them)
    a = ExistentialTypeVar.fresh("a", ca, da)
    r = build(k, (a, ca, da), (INT, True, True))
    if r is None:
        return True
    t, c, d = r
    return t.copyable == c and t.droppable == d


def h_base_table() -> bool:
    """
    post: _
    """
    both = [INT, NAT, FLOAT, bool_type(), string_type(), NoneType(),
            FunctionType([FuncInput(QUBIT, InputFlags.Owned)], QUBIT)]
    for t in both:
        if not agrees(t, True, True, []):
            return False
    if not agrees(QUBIT, False, False, []):
        return False
    return agrees(array_type(INT, 2), False, True, []) and agrees(array_type(QUBIT, 2), False, False, [])
