"""C33 — each gated feature really consults the gate: the real front end (decorator, parser,
CFG builder, checker) runs on four fixed programs with the flag symbolic."""
import lib.repo_env
lib.repo_env.shim()
import guppylang_internals.experimental as E
from guppylang_internals.error import GuppyError
from guppylang_internals.checker.errors.generic import UnsupportedError
from crosshair.tracers import NoTracing
from guppylang import guppy, qubit
from guppylang.std.builtins import owned
from guppylang.std.quantum import h


@guppy
def p_list(x: int) -> int:
    xs = [x, x]
    return x


@guppy
def _g1(x: int) -> int:
    return x


@guppy
def _g2(x: int) -> int:
    return x + 1


@guppy
def p_tensor(x: int) -> int:
    a, b = (_g1, _g2)(x, x)
    return a + b


@guppy
def p_closure(x: int) -> int:
    def inner(y: int) -> int:
        return x + y

    return inner(1)


@guppy
def p_modifier(q: qubit) -> None:
    with dagger:  # noqa: F821
        h(q)


@guppy
def p_plain(x: int) -> int:
    y = x + 1
    return y


PROGS = [p_list, p_tensor, p_closure, p_modifier]


def _outcome(prog) -> str:
    try:
        prog.check()
        return "accepted"
    except GuppyError as e:
        err = e.error
        if isinstance(err, E.ExperimentalFeatureError):
            return "experimental"
        if isinstance(err, UnsupportedError) and "losure" in str(getattr(err, "things", "")):
            return "experimental"
        return "other:" + type(err).__name__


def h_sites(flag: bool, which: int) -> bool:
    """
    pre: 0 <= which < 4
    post: _
    """
    # fork on the symbolic inputs, then run the (set-descriptor-heavy) front end untraced on the
    # concrete values of this path
    cflag = True if flag else False
    cwhich = 0
    for i in range(4):
        if which == i:
            cwhich = i
    with NoTracing():
        E.EXPERIMENTAL_FEATURES_ENABLED = cflag
        try:
            out = _outcome(PROGS[cwhich])
            base = _outcome(p_plain)
        finally:
            E.EXPERIMENTAL_FEATURES_ENABLED = False
    if base != "accepted":
        return False
    if flag:
        return out != "experimental"
    return out == "experimental"
