"""C33 — each gated feature really consults the gate: the real front end (decorator, parser,
CFG builder, checker) runs on fixed programs (every gate call site in several shapes) with the flag symbolic."""
import lib.repo_env
lib.repo_env.shim()
import guppylang_internals.experimental as E
from guppylang_internals.error import GuppyError
from guppylang_internals.checker.errors.generic import UnsupportedError
from crosshair.tracers import NoTracing
from guppylang import guppy, qubit
from guppylang.std.builtins import owned
from guppylang.std.quantum import h


@guppy
def p_list(x: int) -> int:
    xs = [x, x]
    return x


@guppy
def _g1(x: int) -> int:
    return x


@guppy
def _g2(x: int) -> int:
    return x + 1


@guppy
def p_tensor(x: int) -> int:
    a, b = (_g1, _g2)(x, x)
    return a + b


@guppy
def p_closure(x: int) -> int:
    def inner(y: int) -> int:
        return x + y

    return inner(1)


@guppy
def p_modifier(q: qubit) -> None:
    with dagger:  # noqa: F821
        h(q)


@guppy
def p_plain(x: int) -> int:
    y = x + 1
    return y


from collections.abc import Callable  # noqa: E402


@guppy
def p_list_checked(x: int) -> int:
    xs: list[int] = [x, x]
    return x


@guppy
def p_list_comprehension(x: int) -> int:
    xs = [i for i in range(x)]
    return x


@guppy
def p_list_annotation(xs: list[int]) -> int:
    return 0


@guppy
def p_tensor_checked(x: int) -> int:
    r: tuple[int, int] = (_g1, _g2)(x, x)
    return r[0]


@guppy
def p_closure_callable(f: Callable[[], int]) -> int:
    def inner() -> int:
        return f()

    return inner()


@guppy
def p_closure_local_function(x: int) -> int:
    def first(y: int) -> int:
        return y + 1

    def second(y: int) -> int:
        return first(y)

    return second(x)


@guppy
def p_closure_two(x: int, y: float) -> float:
    def inner() -> float:
        return x + y

    return inner()


@guppy
def p_closure_nested_twice(x: int) -> int:
    def outer_() -> int:
        def inner() -> int:
            return x

        return inner()

    return outer_()


@guppy
def p_modifier_control(q: qubit, c: qubit) -> None:
    with control(c):  # noqa: F821
        h(q)


@guppy
def p_modifier_power(q: qubit) -> None:
    with power(2):  # noqa: F821
        h(q)


@guppy
def p_modifier_stack(q: qubit, c: qubit) -> None:
    with dagger, control(c):  # noqa: F821
        h(q)


PROGS = [p_list, p_tensor, p_closure, p_modifier, p_list_checked, p_list_comprehension, p_list_annotation, p_tensor_checked,
         p_closure_callable, p_closure_local_function, p_closure_two, p_closure_nested_twice, p_modifier_control, p_modifier_power,
         p_modifier_stack]
NPROGS = len(PROGS)


def _outcome(prog) -> str:
    try:
        prog.check()
        return "accepted"
    except GuppyError as e:
        err = e.error
        if isinstance(err, E.ExperimentalFeatureError):
            return "experimental"
        if isinstance(err, UnsupportedError) and "losure" in str(getattr(err, "things", "")):
            return "experimental"
        return "other:" + type(err).__name__


def h_sites(flag: bool, which: int) -> bool:
    """
    pre: 0 <= which < NPROGS
    post: _
    """
    # fork on the symbolic inputs, then run the (set-descriptor-heavy) front end untraced on the
    # concrete values of this path
    cflag = True if flag else False
    cwhich = 0
    for i in range(NPROGS):
        if which == i:
            cwhich = i
    with NoTracing():
        E.EXPERIMENTAL_FEATURES_ENABLED = cflag
        try:
            out = _outcome(PROGS[cwhich])
            base = _outcome(p_plain)
        finally:
            E.EXPERIMENTAL_FEATURES_ENABLED = False
    if base != "accepted":
        return False
    if flag:
        return out != "experimental"
    return out == "experimental"


def h_sequence(which: int, first: bool) -> bool:
    """
    pre: 0 <= which < NPROGS
    post: _
    """
    # one program checked under a sequence of flag settings in one session (enabled, disabled, enabled, disabled or the reverse):
    # the gate must answer according to the setting in force at each check — nothing learnt while enabled may open it later
    cwhich = 0
    for i in range(NPROGS):
        if which == i:
            cwhich = i
    cfirst = True if first else False
    with NoTracing():
        outs = []
        try:
            for k in range(4):
                fl = cfirst if k % 2 == 0 else (not cfirst)
                E.EXPERIMENTAL_FEATURES_ENABLED = fl
                outs.append((fl, _outcome(PROGS[cwhich])))
        finally:
            E.EXPERIMENTAL_FEATURES_ENABLED = False
    return all((o != "experimental") if fl else (o == "experimental") for fl, o in outs)
