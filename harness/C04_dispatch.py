"""C04 — the glue around the binding table, executed on the real code (CrossHair, tiny domains):
ReversingChecker.parse_name/synthesize really swap the operands and dispatch to the direct dunder;
binary_table/unary_table name the dunders Python itself uses; _synthesize_binary tries left-direct, then
right-reflected with swapped operands; the constructors/builtins dispatch to the right dunder."""
import ast
import lib.repo_env
lib.repo_env.shim()
import guppylang  # noqa: F401
from guppylang_internals.checker import expr_checker as EC
from guppylang_internals.std._internal import checker as CK
from guppylang_internals.error import GuppyError, GuppyTypeError
from guppylang_internals.span import Loc, Span
from lib import astx

lib.repo_env.assert_repo(EC, CK)

BIN_OPS = list(EC.binary_table.items())
UN_OPS = list(EC.unary_table.items())
SPAN = Span(Loc("f", 1, 0), Loc("f", 1, 1))


class _Rec:
    """operand whose dunders record (name, other) and decline, so Python tries the reflected one"""

    def __init__(self, tag, log, accept):
        self.tag, self.log, self.accept = tag, log, accept


def _mk_rec_class():
    names = set()
    for _, (l, r, _) in BIN_OPS:
        names.update((l, r))
    ns = {}
    for n in names:
        def f(self, other, _n=n):
            self.log.append((self.tag, _n))
            return ("ok", self.tag, _n) if self.accept else NotImplemented
        ns[n] = f
    for _, (n, _) in UN_OPS:
        def g(self, _n=n):
            self.log.append((self.tag, _n))
            return ("ok", self.tag, _n)
        ns[n] = g
    ns["__hash__"] = lambda self: 0
    return type("Rec", (_Rec,), ns)


# two distinct operand classes: Python does not try the reflected method when both operands have the same type
Rec = _mk_rec_class()
RecR = _mk_rec_class()


def h_binary_table(i: int) -> bool:
    """
    pre: 0 <= i < len(BIN_OPS)
    post: _
    """
    # Python's own data model: `a <op> b` tries type(a).<left>(a, b), then type(b).<right>(b, a)
    opcls, (lop, rop, disp) = BIN_OPS[i]
    if opcls is ast.MatMult:
        return (lop, rop) == ("__matmul__", "__rmatmul__")
    log: list = []
    a, b = Rec("L", log, False), RecR("R", log, True)
    if issubclass(opcls, ast.cmpop):
        expr = ast.Compare(left=ast.Name(id="a", ctx=ast.Load()), ops=[opcls()], comparators=[ast.Name(id="b", ctx=ast.Load())])
    else:
        expr = ast.BinOp(left=ast.Name(id="a", ctx=ast.Load()), op=opcls(), right=ast.Name(id="b", ctx=ast.Load()))
    code = compile(ast.fix_missing_locations(ast.Expression(body=expr)), "<op>", "eval")
    eval(code, {"a": a, "b": b})
    src = ast.unparse(expr)
    return log == [("L", lop), ("R", rop)] and src == f"a {disp} b"


def h_unary_table(i: int) -> bool:
    """
    pre: 0 <= i < len(UN_OPS)
    post: _
    """
    opcls, (name, disp) = UN_OPS[i]
    log: list = []
    a = Rec("L", log, True)
    expr = ast.UnaryOp(op=opcls(), operand=ast.Name(id="a", ctx=ast.Load()))
    eval(compile(ast.fix_missing_locations(ast.Expression(body=expr)), "<op>", "eval"), {"a": a})
    return log == [("L", name)] and ast.unparse(expr) == f"{disp}a"


# ---- _synthesize_binary on stubs: which instance function is asked for, with which operand order
class _Func:
    def __init__(self, owner, name, ok, log):
        self.owner, self.name, self.ok, self.log = owner, name, ok, log

    def synthesize_call(self, args, node, ctx):
        self.log.append((self.owner, self.name, tuple(args)))
        if not self.ok:
            raise GuppyTypeError(EC.UnsupportedError(SPAN, "x"))
        return ("call", self.owner, self.name, tuple(args)), "T"


class _Globals:
    def __init__(self, table, log):
        self.table, self.log = table, log

    def get_instance_func(self, ty, name):
        self.log.append(("lookup", ty, name))
        ok = self.table.get((ty, name))
        if ok is None:
            return None
        return _Func(ty, name, ok, self.log)


class _Ctx:
    def __init__(self, g):
        self.globals = g


class _Synth:
    """stand-in for ExprSynthesizer's self: operands are their own types"""

    def __init__(self, ctx):
        self.ctx = ctx

    def synthesize(self, e):
        return e, "ty_" + e


_synth_binary = EC.ExprSynthesizer._synthesize_binary


def h_synthesize_binary(i: int, left_has: bool, left_ok: bool, right_has: bool, right_ok: bool) -> bool:
    """
    pre: 0 <= i < len(BIN_OPS)
    post: _
    """
    opcls, (lop, rop, disp) = BIN_OPS[i]
    log: list = []
    table = {}
    if left_has:
        table[("ty_l", lop)] = left_ok
    if right_has:
        table[("ty_r", rop)] = right_ok
    me = _Synth(_Ctx(_Globals(table, log)))
    try:
        res = _synth_binary(me, "l", "r", opcls(), SPAN)
    except GuppyTypeError:
        res = None
    calls = [x for x in log if x[0] != "lookup"]
    if left_has and left_ok:
        return res == (("call", "ty_l", lop, ("l", "r")), "T") and calls == [("ty_l", lop, ("l", "r"))]
    exp_calls = [("ty_l", lop, ("l", "r"))] if left_has else []
    if right_has:
        exp_calls.append(("ty_r", rop, ("r", "l")))
    if right_has and right_ok:
        return res == (("call", "ty_r", rop, ("r", "l")), "T") and calls == exp_calls
    return res is None and calls == exp_calls


# ---- ReversingChecker.synthesize on stubs (recompiled in a namespace where ExprSynthesizer is the stub)
_gck = dict(vars(CK))
_gck["ExprSynthesizer"] = _Synth
_rev_synth = astx.rebuild(CK.ReversingChecker.synthesize, lambda fd: fd, _gck)
RDUNDERS = sorted({r for _, (l, r, _) in BIN_OPS if r.startswith("__r") and r != l and l not in ("__lt__", "__le__", "__gt__", "__ge__")})


class _Def:
    def __init__(self, name):
        self.name = name


def h_reversing_checker(i: int) -> bool:
    """
    pre: 0 <= i < len(RDUNDERS)
    post: _
    """
    rname = RDUNDERS[i]
    direct = next(l for _, (l, r, _) in BIN_OPS if r == rname)
    log: list = []
    ck = CK.ReversingChecker.__new__(CK.ReversingChecker)
    ck.func = _Def(rname)
    ck.ctx = _Ctx(_Globals({("ty_self", direct): True}, log))
    ck.node = SPAN
    if ck.parse_name() != direct:
        return False
    res = _rev_synth(ck, ["self", "other"])
    # x.__rop__(y) must become  type(x).__op__(y, x)
    return res == (("call", "ty_self", direct, ("other", "self")), "T")
