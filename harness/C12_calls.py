"""C12 (consequence for calls) — a call to a generic function type-checks exactly when an instantiation of its parameters
makes the arguments fit.  Real code: the whole call path of the real check() (expr_checker.check_call / synthesize_call /
type_check_args, ExprChecker.visit_Tuple, unify, check_inst).  For a grid of generic signatures over T, U and argument
expressions of known concrete type, the real verdict is compared with z3's answer to "is there an assignment of types to
T and U that makes every parameter type equal to the argument's type" (finite-tree theory; no numeric coercions arise:
the value types are bool, int and tuples)."""
import importlib.util
import os
import sys
import lib.repo_env
lib.repo_env.shim()
import z3
import guppylang  # noqa: F401
from guppylang_internals.checker import expr_checker as EC
from guppylang_internals.error import GuppyError
from crosshair.tracers import NoTracing
from crosshair.core import realize

lib.repo_env.assert_repo(EC)
# parameter type shapes: (annotation text, encoder)
SHAPES = ["T", "U", "bool", "int", "tuple[T, T]", "tuple[T, U]", "tuple[U, T]", "tuple[T, bool]", "tuple[tuple[T, U], T]"]
# argument expressions with their concrete types
ARGS = [("True", "b"), ("1", "i"), ("vb", "b"), ("vi", "i"), ("(1, False)", ("i", "b")), ("(True, False)", ("b", "b")), ("(1, 2)", ("i", "i")),
        ("((1, True), 2)", (("i", "b"), "i")), ("((1, True), False)", (("i", "b"), "b")), ("vp", ("i", "b")), ("vq", ("b", "b")), ("(vp, 3)", (("i", "b"), "i")),
        ("(vb, vb)", ("b", "b")), ("(vq, vb)", (("b", "b"), "b"))]
LEVEL = os.environ.get("VERIF_C12_LEVEL", "quick")
_SH, _NSH = (int(x) for x in os.environ.get("VERIF_C12_SHARD", "0/1").split("/"))

_all = [((s,), (a,)) for s in range(len(SHAPES)) for a in range(len(ARGS))]
_all += [((s1, s2), (a1, a2)) for s1 in range(len(SHAPES)) for s2 in range(len(SHAPES)) for a1 in range(len(ARGS)) for a2 in range(len(ARGS))]
if LEVEL == "quick":
    _all = _all[:len(SHAPES) * len(ARGS)] + _all[len(SHAPES) * len(ARGS)::37]
CASES = _all[_SH::_NSH]

_ctx = z3.Context()
_Ty = z3.Datatype("Ty", ctx=_ctx)
_Ty.declare("b")
_Ty.declare("i")
_Ty.declare("tup", ("l", _Ty), ("r", _Ty))
_Ty = _Ty.create()
_T, _U = z3.Const("T", _Ty), z3.Const("U", _Ty)


def _enc_shape(s):
    return {"T": _T, "U": _U, "bool": _Ty.b, "int": _Ty.i, "tuple[T, T]": _Ty.tup(_T, _T), "tuple[T, U]": _Ty.tup(_T, _U), "tuple[U, T]": _Ty.tup(_U, _T),
            "tuple[T, bool]": _Ty.tup(_T, _Ty.b), "tuple[tuple[T, U], T]": _Ty.tup(_Ty.tup(_T, _U), _T)}[s]


def _enc_ty(t):
    if t == "b":
        return _Ty.b
    if t == "i":
        return _Ty.i
    return _Ty.tup(_enc_ty(t[0]), _enc_ty(t[1]))


def instantiation_exists(shapes, args) -> bool:
    s = z3.Solver(ctx=_ctx)
    for sh, a in zip(shapes, args):
        s.add(_enc_shape(SHAPES[sh]) == _enc_ty(ARGS[a][1]))
    r = str(s.check())
    if r == "unknown":
        raise RuntimeError("z3 unknown")
    return r == "sat"


def _module_text():
    out = ["from guppylang import guppy\nT = guppy.type_var('T')\nU = guppy.type_var('U')\n\n"]
    for ci, (shapes, args) in enumerate(CASES):
        params = ", ".join(f"x{k}: {SHAPES[s]}" for k, s in enumerate(shapes))
        out.append(f"@guppy.declare\ndef g{ci}({params}) -> int: ...\n\n")
        call = ", ".join(ARGS[a][0] for a in args)
        out.append(f"@guppy\ndef prog{ci}(vb: bool, vi: int, vp: tuple[int, bool], vq: tuple[bool, bool]) -> int:\n    return g{ci}({call})\n\n")
    return "".join(out)


with NoTracing():
    _dir = os.environ.get("VERIF_TWIN_DIR") or "/var/tmp"
    _path = os.path.join(_dir, f"c12calls_{_SH}_{os.getpid()}.py")
    with open(_path, "w") as _f:
        _f.write(_module_text())
    _spec = importlib.util.spec_from_file_location(f"c12calls_{os.getpid()}", _path)
    M = importlib.util.module_from_spec(_spec)
    sys.modules[_spec.name] = M
    _spec.loader.exec_module(M)
LAST_DETAIL = None


def h_call(case: int) -> bool:
    """
    pre: 0 <= case < len(CASES)
    post: _
    """
    global LAST_DETAIL
    ci = realize(case)
    with NoTracing():
        shapes, args = CASES[ci]
        try:
            getattr(M, f"prog{ci}").check()
            accepted, why = True, ""
        except GuppyError as e:
            accepted, why = False, type(e.error).__name__
        exists = instantiation_exists(shapes, args)
        if accepted != exists:
            sig = ", ".join(SHAPES[s] for s in shapes)
            call = ", ".join(f"{ARGS[a][0]}" for a in args)
            LAST_DETAIL = (f"g: forall T U. ({sig}) -> int called as g({call}): the real checker {'accepts' if accepted else 'rejects (' + why + ')'}, "
                           f"but an instantiation of T, U making the arguments fit {'exists' if exists else 'does not exist'}")
            return False
        return True
