"""C12 — unification finds a (most general) unifier exactly when one exists, and terminates.
Real code: tys/ty.py unify/_unify_var/_unify_args, tys/subst.py Substituter (substitute()).
The quantifier over *terms* is a bounded grammar enumerated exhaustively (real Type/Const objects); the
quantifiers of the statement itself -- "some assignment to the inference variables", "most general" -- range
over infinitely many assignments and are decided by z3's theory of finite trees (algebraic datatypes;
acyclicity = occurs check) in three queries per case: existence of a unifier, soundness and most-generality
of the substitution the real unify returned."""
import itertools
import os
import sys
import lib.repo_env
lib.repo_env.shim()
import z3
from crosshair.tracers import NoTracing
from guppylang.std.quantum import qubit as _qubit_def
from guppylang_internals.engine import DEF_STORE
from guppylang_internals.tys import ty as TY
from guppylang_internals.tys.ty import (BoundTypeVar, ExistentialTypeVar, FuncInput, FunctionType, InputFlags, NoneType,
                                        NumericType, OpaqueType, StructType, TupleType, unify)
from guppylang_internals.tys.builtin import array_type, bool_type, list_type, option_type
from guppylang_internals.tys.const import ConstValue, ExistentialConstVar
from guppylang_internals.tys.arg import ConstArg, TypeArg
from guppylang_internals.tys.param import TypeParam
from guppylang_internals.definition.struct import CheckedStructDef, StructField
from guppylang_internals.definition.common import DefId
from guppylang_internals.error import InternalGuppyError

lib.repo_env.assert_repo(TY)


INT, NAT, FLOAT = (NumericType(NumericType.Kind.Int), NumericType(NumericType.Kind.Nat), NumericType(NumericType.Kind.Float))
QUBIT = OpaqueType([], DEF_STORE.raw_defs[_qubit_def.id])
A = ExistentialTypeVar("a", 9001, True, True)
B = ExistentialTypeVar("b", 9002, True, True)
T0 = BoundTypeVar("T", 0, True, True)
CM = ExistentialConstVar(NAT, "m", 9101)
CN = ExistentialConstVar(NAT, "n", 9102)
_XP = [TypeParam(0, "X", True, True)]
_X = BoundTypeVar("X", 0, True, True)
S_DEF = CheckedStructDef(DefId.fresh(), "S", None, _XP, [StructField("f", _X)])
R_DEF = CheckedStructDef(DefId.fresh(), "R", None, _XP, [StructField("f", _X)])

LEAVES = [INT, A, B, T0, NoneType(), FLOAT]
CONSTS = [ConstValue(NAT, 2), CM, CN, ConstValue(NAT, 0)]
INPUTS = [FuncInput(INT, InputFlags.NoFlags), FuncInput(A, InputFlags.NoFlags), FuncInput(QUBIT, InputFlags.Owned),
          FuncInput(QUBIT, InputFlags.Inout), FuncInput(B, InputFlags.NoFlags)]
_GEN_P = [TypeParam(0, "T", True, True)]


def layer(pool, pair_pool, consts, inputs, with_generic=True):
    """all terms with one more constructor on top of `pool` (binary constructors draw from `pair_pool`)"""
    out = []
    out += [TupleType([x]) for x in pool]
    out += [TupleType([x, y]) for x in pair_pool for y in pair_pool]
    out += [array_type(x, c) for x in pool for c in consts]
    out += [option_type(x) for x in pool]
    out += [list_type(x) for x in pool]
    out += [StructType([TypeArg(x)], S_DEF) for x in pool]
    out += [StructType([TypeArg(x)], R_DEF) for x in pool]
    out += [FunctionType([i], y) for i in inputs for y in pool]
    out += [FunctionType([i, j], INT) for i in inputs for j in inputs]
    if with_generic:
        out += [FunctionType([FuncInput(T0, InputFlags.NoFlags)], x, params=_GEN_P) for x in pool
                if not (isinstance(x, FunctionType) and x.parametrized)]
    return out


def terms(level: str):
    """the term universe of a tier, in a fixed order (indices are stable: replays refer to them)"""
    if level == "quick":
        d1 = layer(LEAVES, LEAVES, CONSTS, INPUTS)
        d2 = [TupleType([x, TupleType([y, x])]) for x in LEAVES for y in LEAVES]
        d2 += [option_type(array_type(x, c)) for x in LEAVES for c in CONSTS]
        d2 += [FunctionType([FuncInput(FunctionType([i], x), InputFlags.NoFlags)], y) for i in INPUTS for x in LEAVES[:3] for y in LEAVES[:3]]
        return LEAVES + d1 + d2
    small = LEAVES[:3]
    inner = small + layer(small, small, CONSTS[:2], INPUTS[:4], with_generic=False)
    first = [t for t in inner if not isinstance(t, FunctionType)][:20]
    fn_inputs = INPUTS + [FuncInput(FunctionType([INPUTS[2]], INT), InputFlags.NoFlags), FuncInput(TupleType([A]), InputFlags.NoFlags)]
    return LEAVES + layer(LEAVES + inner, LEAVES + first, CONSTS, fn_inputs)


#: prior substitutions: consistent = acyclic and kind-correct (the documented precondition of unify)
SUBSTS = [
    {},
    {A: INT},
    {A: TupleType([B])},
    {B: A},
    {A: option_type(B), CM: ConstValue(NAT, 2)},
    {B: FLOAT, CN: CM},
    {A: B, B: NoneType()},
    {CM: CN, CN: ConstValue(NAT, 0)},
]

# ------------------------------------------------------------------------------- z3 oracle (private context)
_ctx = z3.Context()
_Ty = z3.Datatype("Ty", ctx=_ctx)
_In = z3.Datatype("In", ctx=_ctx)
for _n in ("int", "nat", "float", "bool", "none", "qubit", "bound0"):
    _Ty.declare(_n)
_Ty.declare("tup1", ("t10", _Ty))
_Ty.declare("tup2", ("t20", _Ty), ("t21", _Ty))
_Ty.declare("arr", ("ael", _Ty), ("an", z3.IntSort(_ctx)))
_Ty.declare("opt", ("oel", _Ty))
_Ty.declare("lst", ("lel", _Ty))
_Ty.declare("stS", ("s0", _Ty))
_Ty.declare("stR", ("r0", _Ty))
_Ty.declare("fn1", ("f1i", _In), ("f1o", _Ty))
_Ty.declare("fn2", ("f2i", _In), ("f2j", _In), ("f2o", _Ty))
_Ty.declare("gfn", ("go", _Ty))
_In.declare("inp", ("ity", _Ty), ("ifl", z3.IntSort(_ctx)))
_Ty, _In = z3.CreateDatatypes(_Ty, _In)
_TV = {A: z3.Const("a", _Ty), B: z3.Const("b", _Ty)}
_CV = {CM: z3.Int("m", ctx=_ctx), CN: z3.Int("n", ctx=_ctx)}
_KIND = [_TV[A] != _Ty.qubit, _TV[B] != _Ty.qubit, _CV[CM] >= 0, _CV[CN] >= 0]


def enc_const(c):
    if isinstance(c, ExistentialConstVar):
        return _CV[c]
    return z3.IntVal(c.value, ctx=_ctx)


def enc(t):
    if isinstance(t, ExistentialTypeVar):
        return _TV[t]
    if isinstance(t, BoundTypeVar):
        return _Ty.bound0
    if isinstance(t, NumericType):
        return {NumericType.Kind.Int: _Ty.int, NumericType.Kind.Nat: _Ty.nat, NumericType.Kind.Float: _Ty.float}[t.kind]
    if isinstance(t, NoneType):
        return _Ty.none
    if isinstance(t, TupleType):
        es = [enc(e) for e in t.element_types]
        return _Ty.tup1(es[0]) if len(es) == 1 else _Ty.tup2(es[0], es[1])
    if isinstance(t, StructType):
        return (_Ty.stS if t.defn is S_DEF else _Ty.stR)(enc(t.args[0].ty))
    if isinstance(t, FunctionType):
        ins = [_In.inp(enc(i.ty), z3.IntVal(i.flags.value, ctx=_ctx)) for i in t.inputs]
        if t.parametrized:
            return _Ty.gfn(enc(t.output))
        if len(ins) == 1:
            return _Ty.fn1(ins[0], enc(t.output))
        return _Ty.fn2(ins[0], ins[1], enc(t.output))
    if isinstance(t, OpaqueType):
        n = t.defn.name
        if n == "qubit":
            return _Ty.qubit
        if n == "bool":
            return _Ty.bool
        if n == "Option":
            return _Ty.opt(enc(t.args[0].ty))
        if n == "list":
            return _Ty.lst(enc(t.args[0].ty))
        if n == "array":
            return _Ty.arr(enc(t.args[0].ty), enc_const(t.args[1].const))
    raise AssertionError(f"no encoding for {t}")


def enc_subst(sigma):
    out = []
    for v, t in sigma.items():
        out.append((_TV[v] == enc(t)) if isinstance(v, ExistentialTypeVar) else (_CV[v] == enc_const(t)))
    return out


def _sat(*phi) -> bool:
    s = z3.Solver(ctx=_ctx)
    s.set("timeout", 20000)
    s.add(*_KIND)
    s.add(*phi)
    r = str(s.check())
    if r == "unknown":
        raise RuntimeError("oracle: z3 unknown")
    return r == "sat"


def _and(xs):
    return z3.And(*xs, _ctx) if xs else z3.BoolVal(True, ctx=_ctx)


def oracle(s, t, sigma0, sigma):
    """(unifiable, sigma is implied by every solution [most general], sigma implies s = t and sigma0 [sound])"""
    eq = [enc(s) == enc(t)] + enc_subst(sigma0)
    unifiable = _sat(*eq)
    if sigma is None:
        return unifiable, True, True
    sg = enc_subst(sigma)
    most_general = not _sat(*eq, z3.Not(_and(sg)))
    sound = not _sat(*sg, z3.Not(_and(eq)))
    return unifiable, most_general, sound


def _fix(t, sigma, fuel=12):
    for _ in range(fuel):
        n = t.substitute(sigma)
        if n == t:
            return t
        t = n
    raise RecursionError("substitution does not reach a fixpoint")


def _binds_var_to_qubit(sigma) -> bool:
    for v in sigma:
        if isinstance(v, ExistentialTypeVar) and _fix(v, sigma) == QUBIT:
            return True
    return False


LAST_DETAIL = None


def decide(s, t, s0c) -> bool:
    global LAST_DETAIL
    sigma0 = dict(SUBSTS[s0c])
    try:
        sigma = unify(s, t, dict(sigma0))  # termination: bounded by the interpreter's recursion limit
    except RecursionError:
        LAST_DETAIL = f"unify({s}, {t}, {sigma0}) does not terminate"
        return False
    if True:
        if sigma is not None:
            try:
                if _binds_var_to_qubit(sigma):
                    return True  # kind-incorrect instantiation (copyable variable := qubit): outside the domain, rejected later by check_inst
                s2, t2 = _fix(s, sigma), _fix(t, sigma)
            except RecursionError:
                LAST_DETAIL = f"unify({s}, {t}, {sigma0}) returned a cyclic substitution {sigma}"
                return False
            except InternalGuppyError:
                return True  # a variable instantiated with a *generic* function type (higher-rank): not a well-formed instantiation
            if s2 != t2:
                LAST_DETAIL = f"unify({s}, {t}, {sigma0}) = {sigma} does not make the terms identical: {s2} vs {t2}"
                return False
            if any(k not in sigma or sigma[k] != v for k, v in sigma0.items()):
                LAST_DETAIL = f"prior bindings lost: {sigma0} -> {sigma}"
                return False
        unifiable, most_general, sound = oracle(s, t, sigma0, sigma)
        if (sigma is not None) != unifiable:
            LAST_DETAIL = f"unify({s}, {t}, {sigma0}) = {sigma} but a unifier {'exists' if unifiable else 'does not exist'}"
            return False
        if not (most_general and sound):
            LAST_DETAIL = f"unify({s}, {t}, {sigma0}) = {sigma}: most_general={most_general} sound={sound}"
            return False
    return True


_UNIVERSE: dict = {}


def universe(level):
    if level not in _UNIVERSE:
        _UNIVERSE[level] = terms(level)
    return _UNIVERSE[level]


def h_case(level: str, i: int, j: int, s0: int) -> bool:
    """replay entry: the (i, j)-th term pair of the tier's universe under prior substitution s0"""
    u = universe(level)
    return decide(u[i], u[j], s0)


def run_block(level: str, rows: list, nsubst: int) -> dict:
    """decide every (row term, any term, substitution) case; returns counts and the failures"""
    u = universe(level)
    n = ok_unif = 0
    fails = []
    for i in rows:
        for j in range(len(u)):
            for s0 in range(nsubst):
                n += 1
                if not decide(u[i], u[j], s0):
                    fails.append((i, j, s0, LAST_DETAIL))
                    if len(fails) > 20:
                        return {"cases": n, "fails": fails}
    return {"cases": n, "fails": fails}
