"""C16 — implicit numeric coercions only widen.
Real code: checker/expr_checker.py try_coerce_to and check_type_against (non-generic branch), with real
NumericType objects and a recording stand-in for the checker context.
Symbolic: actual and expected type (indices into a pool of real types)."""
import ast
import lib.repo_env
lib.repo_env.shim()
import guppylang  # noqa: F401
from guppylang_internals.checker import expr_checker as EC
from guppylang_internals.error import GuppyTypeError
from guppylang_internals.tys.builtin import bool_type, float_type, int_type, nat_type, string_type
from guppylang_internals.tys.ty import NoneType, NumericType, TupleType
from guppylang_internals.span import Loc, Span

lib.repo_env.assert_repo(EC)

POOL = [nat_type(), int_type(), float_type(), bool_type(), string_type(), NoneType(), TupleType([int_type()]),
        TupleType([nat_type()]), TupleType([float_type(), int_type()])]
RANK = {0: 0, 1: 1, 2: 2}  # nat < int < float
NODE = Span(Loc("f", 1, 0), Loc("f", 1, 1))


class _Func:
    def __init__(self, ty, name, log):
        self.ty, self.name, self.log = ty, name, log

    def check_call(self, args, exp, node, ctx):
        self.log.append(("check_call", self.ty, self.name, tuple(args), exp))
        return ("coerced", self.name, args[0]), {}


class _Globals:
    def __init__(self, log):
        self.log = log

    def get_instance_func(self, ty, name):
        self.log.append(("lookup", ty, name))
        return _Func(ty, name, self.log)


class _Ctx:
    def __init__(self, log):
        self.globals = _Globals(log)


def _expected(ai, ei):
    """None = no coercion; else the dunder that must be called on the actual type"""
    if ai in RANK and ei in RANK and RANK[ai] < RANK[ei]:
        return "__int__" if ei == 1 else "__float__"
    return None


def h_try_coerce(ai: int, ei: int) -> bool:
    """
    pre: 0 <= ai < len(POOL) and 0 <= ei < len(POOL)
    post: _
    """
    log: list = []
    act, exp = POOL[ai], POOL[ei]
    r = EC.try_coerce_to(act, exp, "expr", _Ctx(log))
    want = _expected(ai, ei)
    if want is None:
        return r is None and log == []
    return r == ("coerced", want, "expr") and log == [("lookup", act, want), ("check_call", act, want, ("expr",), exp)] \
        and want != "__nat__"


def h_check_type_against(ai: int, ei: int) -> bool:
    """
    pre: 0 <= ai < len(POOL) and 0 <= ei < len(POOL)
    post: _
    """
    log: list = []
    act, exp = POOL[ai], POOL[ei]
    try:
        node, subst, inst = EC.check_type_against(act, exp, NODE, _Ctx(log))
    except GuppyTypeError:
        # rejected: neither equal nor a widening
        return act != exp and _expected(ai, ei) is None and log == []
    if act == exp:
        return node is NODE and subst == {} and inst == [] and log == []
    want = _expected(ai, ei)
    return want is not None and node == ("coerced", want, NODE) and subst == {} and inst == [] \
        and [x for x in log if x[0] == "check_call"] == [("check_call", act, want, (NODE,), exp)]


def h_kind_order() -> bool:
    """
    post: _
    """
    K = NumericType.Kind
    return K.Nat < K.Int < K.Float and not (K.Int < K.Nat) and not (K.Float < K.Int) and not (K.Int < K.Int) \
        and [k.name.lower() for k in K] == ["nat", "int", "float"]
