"""C22 (program level) — ownership while tracing comptime functions, through the real trace_function / trace_call.
A script is a value kind plus a sequence of up to three uses — B (lend it to a borrowing function) or C (hand it to a consuming
function) — and an ending (fall off the end, or `return` the value).  Every script becomes a @guppy.comptime function; the real
check() + lowering (which runs the tracer) accepts or rejects it; the oracle is the statement's rule:
  * nothing may be used in any way after it was consumed;
  * a non-droppable value (qubit) that is owned or created locally must be consumed or returned before the function ends;
  * a borrowed argument may be lent on, but neither consumed nor returned, and is still there at the end;
  * a droppable non-copyable value (here Option[array[int, 2]]) may simply be forgotten.
The solver enumerates the scripts (`case`)."""
import importlib.util
import itertools
import os
import sys
import lib.repo_env
lib.repo_env.shim()
import guppylang  # noqa: F401
from guppylang_internals.error import GuppyComptimeError, GuppyError
from guppylang_internals.tracing import function as TF
from lib import e7
from crosshair.core import realize
from crosshair.tracers import NoTracing

lib.repo_env.assert_repo(TF)
KINDS = ["owned-qubit", "local-qubit", "borrowed-qubit", "owned-affine", "element-of-owned-qubit-array"]
SEQS = [s for n in range(0, 4) for s in itertools.product("BC", repeat=n)]
ENDS = ["end", "return"]
CASES = [(k, s, e) for k in range(len(KINDS)) for s in SEQS for e in ENDS]


def _expected(kind, seq, end):
    """True = must be accepted"""
    consumed = False
    for a in seq:
        if consumed:
            return False            # any use after the value was consumed
        if a == "C":
            if kind == 2:
                return False        # a borrowed argument cannot be consumed
            consumed = True
    if end == "return":
        if consumed or kind == 2:
            return False            # returning what is gone / what is only borrowed
        return True
    if kind in (0, 1, 4):
        return consumed             # an owned or local qubit must not be forgotten
    if kind == 2:
        return True
    return True                     # affine: dropping is fine


def _src(ci, kind, seq, end):
    v = {0: "q", 1: "q", 2: "q", 3: "o", 4: "qs[1]"}[kind]
    T = "Option[array[int, 2]]" if kind == 3 else "qubit"
    params = {0: "q: qubit @ owned", 1: "", 2: "q: qubit", 3: f"o: {T} @ owned", 4: "qs: array[qubit, 2] @ owned"}[kind]
    ret = (T if end == "return" else "None")
    body = []
    if kind == 1:
        body.append("q = qubit()")
    for a in seq:
        if kind == 3:
            body.append(f"peek({v})" if a == "B" else f"eat({v})")
        else:
            body.append(f"h({v})" if a == "B" else f"discard({v})")
    if kind == 4:
        body.append("discard(qs[0])")       # the other element is always disposed of properly
    if end == "return":
        body.append(f"return {v}")
    if not body:
        body.append("pass")
    return f"@guppy.comptime\ndef s{ci}({params}) -> {ret}:\n    " + "\n    ".join(body) + "\n\n"


with NoTracing():
    _txt = ("from guppylang import guppy\nfrom guppylang.std.builtins import array, owned\nfrom guppylang.std.option import Option\n"
            "from guppylang.std.quantum import discard, h, qubit\n\n"
            "@guppy.declare\ndef peek(o: Option[array[int, 2]]) -> None: ...\n\n@guppy.declare\ndef eat(o: Option[array[int, 2]] @ owned) -> None: ...\n\n")
    for _ci, (_k, _s, _e) in enumerate(CASES):
        _txt += _src(_ci, _k, _s, _e)
    _dir = os.environ.get("VERIF_TWIN_DIR") or "/var/tmp"
    _path = os.path.join(_dir, f"c22scripts_{os.getpid()}.py")
    with open(_path, "w") as _f:
        _f.write(_txt)
    _spec = importlib.util.spec_from_file_location(f"c22scripts_{os.getpid()}", _path)
    M = importlib.util.module_from_spec(_spec)
    sys.modules[_spec.name] = M
    _spec.loader.exec_module(M)
LAST_DETAIL = None


def h_script(case: int) -> bool:
    """
    pre: 0 <= case < len(CASES)
    post: _
    """
    global LAST_DETAIL
    ci = realize(case)
    with NoTracing():
        kind, seq, end = CASES[ci]
        try:
            e7.lower(getattr(M, f"s{ci}"))
            accepted, why = True, ""
        except (GuppyError, GuppyComptimeError) as err:
            accepted, why = False, type(getattr(err, "error", err)).__name__ + ": " + str(err)[:120]
        want = _expected(kind, seq, end)
        if accepted != want:
            LAST_DETAIL = (f"{KINDS[kind]}, uses {''.join(seq) or '-'}, then {end}: the tracer {'ACCEPTS' if accepted else 'rejects (' + why + ')'} "
                           f"but the ownership rule says {'accept' if want else 'reject'}\n" + _src(ci, kind, seq, end))
            return False
        return True


def h_session() -> bool:
    for c in range(len(CASES)):
        if not h_script(c):
            return False
    return True
