"""C24 — unitary contexts reject non-unitary quantum operations.
Real code: checker/unitary_checker.py (BBUnitaryChecker.check/_check_call/_check_classical_args/visit_*,
check_cfg_unitary, check_invalid_under_dagger) from /repo, run on checked basic blocks built from the real
node classes (LocalCall / GlobalCall / TensorCall / BarrierExpr / StateResultExpr / PlaceNode) with real
FunctionTypes.  Symbolic: the context flag set, the flag set of the callee and of a call nested in the argument
list, the argument shape, the callee kind, and where in the block the call sits.
Oracle (the statement): rejected iff some call that receives a qubit has flags that do not include every flag of the
context (barrier / state_result excepted) wherever it occurs; under dagger also for an assignment or a subscripted
place."""
import ast
import os
import lib.repo_env
lib.repo_env.shim()
import guppylang  # noqa: F401  (registers std)
from guppylang_internals.checker import unitary_checker as U
from guppylang_internals.checker.unitary_checker import BBUnitaryChecker, check_cfg_unitary, check_invalid_under_dagger
from guppylang_internals.checker.cfg_checker import CheckedBB, CheckedCFG
from guppylang_internals.nodes import LocalCall, GlobalCall, TensorCall, BarrierExpr, StateResultExpr, PlaceNode
from guppylang_internals.checker.core import Variable, SubscriptAccess, FieldAccess
from guppylang_internals.ast_util import with_type, with_loc
from guppylang_internals.tys.ty import FunctionType, FuncInput, InputFlags, UnitaryFlags, NoneType, NumericType, TupleType
from guppylang_internals.tys.builtin import array_type, option_type
from guppylang_internals.tys.qubit import qubit_ty
from guppylang_internals.definition.common import DefId
from guppylang_internals.error import GuppyError
from crosshair.tracers import NoTracing

lib.repo_env.assert_repo(U)

Q = qubit_ty()
I = NumericType(NumericType.Kind.Int)


def _struct_types():
    """instantiated struct types of harness/data/c24_structs.py (real @guppy.struct definitions, checked by the real engine)"""
    import importlib.util
    import sys
    from guppylang_internals.engine import ENGINE
    from guppylang_internals.tys.arg import TypeArg
    path = os.path.join(os.path.dirname(os.path.abspath(__file__)), "data", "c24_structs.py")
    spec = importlib.util.spec_from_file_location("c24_structs", path)
    m = importlib.util.module_from_spec(spec)
    sys.modules["c24_structs"] = m
    spec.loader.exec_module(m)
    inst = lambda d, args=(): ENGINE.get_checked(d.id).check_instantiate([TypeArg(a) for a in args])   # noqa: E731
    return {"SQ": inst(m.SQ), "SC": inst(m.SC), "SA": inst(m.SA), "SN": inst(m.SN), "BoxQ": inst(m.Box, [Q]), "BoxI": inst(m.Box, [I]),
            "BoxSN": inst(m.Box, [inst(m.SN)])}


with NoTracing():
    ST = _struct_types()
FLAGS = [UnitaryFlags(i) for i in range(8)]
POS = int(os.environ.get("VERIF_C24_POS", "0"))   # where the call sits (fixed per process)
KIND = int(os.environ.get("VERIF_C24_KIND", "0"))  # callee kind (fixed per process)
POSITIONS = ["expr-statement", "assignment-value", "return-value", "branch-predicate", "operand-of-binop", "argument-of-classical-call",
             "element-of-tuple", "annassign-value", "augassign-value"]
KINDS = ["local", "global", "tensor"]
SHAPE = int(os.environ.get("VERIF_C24_SHAPE", "-1"))  # argument shape (fixed per process; -1 = symbolic)


def _loc(n):
    n.lineno, n.col_offset, n.end_lineno, n.end_col_offset = 1, 0, 1, 1
    return n


def place(name, ty):
    return _loc(with_type(ty, PlaceNode(place=Variable(name, ty, None))))


class _FakeDef:
    def __init__(self, ty):
        self.ty = ty


_GLOBALS: dict = {}


def mkcall(kind, callee_flags, arg_nodes, ret):
    fty = FunctionType([FuncInput(a.type, InputFlags.Inout if a.type == Q else InputFlags.NoFlags) for a in arg_nodes], ret,
                       unitary_flags=callee_flags)
    if kind == 1:
        did = DefId.fresh()
        _GLOBALS[did] = fty
        return _loc(with_type(ret, GlobalCall(def_id=did, args=arg_nodes, type_args=[])))
    fn = _loc(with_type(fty, ast.Name(id="f", ctx=ast.Load())))
    if kind == 2:
        return _loc(with_type(ret, TensorCall(func=fn, args=arg_nodes, tensor_ty=fty)))
    return _loc(with_type(ret, LocalCall(func=fn, args=arg_nodes)))


class _Engine:
    """stand-in for ENGINE.get_parsed: the checker only reads `.ty` of the parsed definition"""

    def get_parsed(self, def_id):
        from guppylang_internals.definition.value import CallableDef

        class D(CallableDef):  # passes the isinstance assertion
            def __init__(s, ty):
                object.__setattr__(s, "ty", ty)

            def check_call(s, *a):
                raise NotImplementedError

            def synthesize_call(s, *a):
                raise NotImplementedError

            def description(s):
                return "function"
        return D(_GLOBALS[def_id])


U.ENGINE = _Engine()


def bad(ctxf, calleef):
    return (ctxf & ~calleef) != UnitaryFlags.NoFlags


def _block(call, pos, ret_ty):
    cfg = CheckedCFG([], NoneType())
    tgt = place("t", ret_ty)
    if pos == 0:
        return CheckedBB(0, cfg, [_loc(ast.Expr(value=call))]), False
    if pos == 1:
        return CheckedBB(0, cfg, [_loc(ast.Assign(targets=[tgt], value=call))]), True
    if pos == 2:
        return CheckedBB(0, cfg, [_loc(ast.Return(value=call))]), False
    if pos == 3:
        return CheckedBB(0, cfg, [], branch_pred=call), False
    if pos == 4:
        e = _loc(with_type(I, ast.BinOp(left=place("x", I), op=ast.Add(), right=call)))
        return CheckedBB(0, cfg, [_loc(ast.Expr(value=e))]), False
    if pos == 5:
        outer = mkcall(0, UnitaryFlags.NoFlags, [place("x", I), call], I)   # a classical-only call: always allowed itself
        return CheckedBB(0, cfg, [_loc(ast.Expr(value=outer))]), False
    if pos == 6:
        e = _loc(with_type(TupleType([I, ret_ty]), ast.Tuple(elts=[place("x", I), call], ctx=ast.Load())))
        return CheckedBB(0, cfg, [_loc(ast.Expr(value=e))]), False
    if pos == 7:
        return CheckedBB(0, cfg, [_loc(ast.AnnAssign(target=tgt, annotation=ast.Name(id="int", ctx=ast.Load()), value=call, simple=1))]), True
    if pos == 8:
        return CheckedBB(0, cfg, [_loc(ast.AugAssign(target=tgt, op=ast.Add(), value=call))]), True
    raise AssertionError(pos)


def h_call(ctx: int, callee: int, inner: int, shape: int) -> bool:
    """
    pre: 0 <= ctx < 8 and 0 <= callee < 8 and 0 <= inner < 8 and 0 <= shape < 17
    pre: SHAPE < 0 or shape == SHAPE
    pre: shape in (2, 3, 4) or inner == 0
    post: _
    """
    cf, kf, inf = FLAGS[ctx], FLAGS[callee], FLAGS[inner]
    with NoTracing():
        _GLOBALS.clear()
    innercall = mkcall(KIND, inf, [place("q2", Q)], I)     # g(q2) -> int with its own flags
    if shape == 0:
        args = [place("q", Q)]                              # quantum only
    elif shape == 1:
        args = [place("x", I)]                              # classical only
    elif shape == 2:
        args = [place("q", Q), innercall]                   # qubit first, then a nested call
    elif shape == 3:
        args = [innercall, place("q", Q)]                   # nested call first
    elif shape == 4:
        args = [place("x", I), innercall]                   # classical outer call with a nested quantum call
    elif shape == 5:
        args = [place("qs", array_type(Q, 2))]              # qubits inside an array
    elif shape == 6:
        args = [place("qss", array_type(array_type(Q, 2), 2))]            # ... two levels deep
    elif shape == 7:
        args = [place("t", TupleType([I, TupleType([Q, I])]))]             # inside a nested tuple
    elif shape == 8:
        args = [place("os", array_type(option_type(Q), 2))]               # array of optional qubits
    elif shape == 9:
        args = [place("x", I), place("t3", TupleType([TupleType([TupleType([Q])])]))]   # classical first, qubit three levels deep
    elif shape == 10:
        args = [place("s", ST["SQ"])]                       # a qubit held in a struct field
    elif shape == 11:
        args = [place("s", ST["SC"])]                       # a struct of classical fields only
    elif shape == 12:
        args = [place("x", I), place("s", ST["SA"])]        # struct with an array-of-qubits field
    elif shape == 13:
        args = [place("s", ST["SN"])]                       # struct nested in a struct
    elif shape == 14:
        args = [place("b", ST["BoxQ"])]                     # generic struct instantiated with qubit
    elif shape == 15:
        args = [place("b", ST["BoxI"])]                     # ... with int
    else:
        args = [place("a", array_type(ST["BoxSN"], 2))]     # array of generic structs of nested structs holding a qubit
    call = mkcall(KIND, kf, args, I)
    bb, is_assign = _block(call, POS, I)
    try:
        BBUnitaryChecker().check(bb, cf)
        rejected = False
    except GuppyError:
        rejected = True
    has_q_outer = shape in (0, 2, 3, 5, 6, 7, 8, 9, 10, 12, 13, 14, 16)
    must_reject = (has_q_outer and bad(cf, kf)) or (shape in (2, 3, 4) and bad(cf, inf))
    if is_assign and UnitaryFlags.Dagger in cf:
        must_reject = True
    return rejected == must_reject


def h_sequence(ctx1: int, ctx2: int, callee: int) -> bool:
    """
    pre: 0 <= ctx1 < 8 and 0 <= ctx2 < 8 and 0 <= callee < 8
    post: _
    """
    # the same callee (one definition id) called with a qubit from two contexts, one after the other: the verdict on the
    # second call may not depend on the first (nothing about a callee may be remembered across blocks, contexts or checker instances)
    c1, c2, kf = FLAGS[ctx1], FLAGS[ctx2], FLAGS[callee]
    with NoTracing():
        _GLOBALS.clear()
    call = mkcall(1, kf, [place("q", Q)], I)
    out = []
    for cf in (c1, c2):
        call2 = _loc(with_type(I, GlobalCall(def_id=call.def_id, args=[place("q", Q)], type_args=[])))
        bb, _ = _block(call2, 0, I)
        try:
            BBUnitaryChecker().check(bb, cf)
            out.append(False)
        except GuppyError:
            out.append(True)
    return out == [bad(c1, kf), bad(c2, kf)]


def h_exempt(ctx: int, which: bool) -> bool:
    """
    pre: 0 <= ctx < 8
    post: _
    """
    # barrier(q, q2) / state_result("tag", q) are allowed in every context, in every position
    cf = FLAGS[ctx]
    fty = FunctionType([FuncInput(Q, InputFlags.Inout), FuncInput(Q, InputFlags.Inout)], NoneType())
    if which:
        node = _loc(with_type(NoneType(), BarrierExpr(args=[place("q", Q), place("q2", Q)], func_ty=fty)))
    else:
        node = _loc(with_type(NoneType(), StateResultExpr(tag_value=None, tag_expr=_loc(ast.Constant("t")), args=[place("q", Q), place("q2", Q)],
                                                          func_ty=fty, array_len=None)))
    bb, is_assign = _block(node, POS if POS in (0, 3, 5, 6) else 0, NoneType())
    try:
        BBUnitaryChecker().check(bb, cf)
        return True
    except GuppyError:
        return False


def h_dagger_places(ctx: int, shape: int, callee: int) -> bool:
    """
    pre: 0 <= ctx < 8 and 0 <= shape < 4 and 0 <= callee < 8
    post: _
    """
    # a subscripted place (qs[i], s.f[i]) handed to a call: rejected under dagger whatever the callee's flags; plain and
    # field places are judged by the flags alone
    cf, kf = FLAGS[ctx], FLAGS[callee]
    arr = array_type(Q, 2)
    base = Variable("qs", arr, None)
    idx = place("i", I)
    if shape == 0:
        pl, sub = Variable("q", Q, None), False
    elif shape == 1:
        pl, sub = SubscriptAccess(base, idx.place, Q, idx, None, None), True
    elif shape == 2:
        pl, sub = Variable("q3", Q, None), False
    else:
        pl, sub = SubscriptAccess(base, idx.place, Q, idx, None, None), True
    arg = _loc(with_type(Q, PlaceNode(place=pl)))
    call = mkcall(KIND, kf, [arg], NoneType())
    bb, _ = _block(call, 0 if shape < 2 else 3, NoneType())
    try:
        check_cfg_unitary(_cfg_of(bb), cf)
        rejected = False
    except GuppyError:
        rejected = True
    must = bad(cf, kf) or (sub and UnitaryFlags.Dagger in cf)
    return rejected == must


def _cfg_of(bb):
    cfg = bb.containing_cfg
    cfg.bbs = [CheckedBB(1, cfg, []), bb]   # the block of interest is not the first one
    return cfg


SRC = {
    0: "def f(q):\n    h(q)\n",
    1: "def f(q):\n    x = 1\n    h(q)\n",
    2: "def f(q):\n    if c:\n        y: int = 2\n    h(q)\n",
    3: "def f(q):\n    h(q)\n    while c:\n        h(q)\n",
    4: "def f(q):\n    if c:\n        for i in r:\n            h(q)\n",
    5: "def f(q):\n    if c:\n        if d:\n            h(q)\n        else:\n            z = 1\n",
    6: "def f(q):\n    h(q)\n    x += 1\n",
    7: "def f(q):\n    if c:\n        h(q)\n    else:\n        h(q)\n",
}
SRC_BAD = {0: False, 1: True, 2: True, 3: True, 4: True, 5: True, 6: True, 7: False}


_PARSED = [ast.parse(SRC[i]).body[0] for i in range(8)]


def h_dagger_syntax(ctx: int, prog: int) -> bool:
    """
    pre: 0 <= ctx < 8 and 0 <= prog < 8
    post: _
    """
    # loops and assignments anywhere in a function declared with the dagger flag are rejected before the body is checked
    cf = FLAGS[ctx]
    fd = _PARSED[prog]
    try:
        check_invalid_under_dagger(fd, cf)
        rejected = False
    except GuppyError:
        rejected = True
    return rejected == (SRC_BAD[prog] and UnitaryFlags.Dagger in cf)
