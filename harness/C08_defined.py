"""C08 — use-before-definition and path-dependent types: the real checker's verdict vs. the path oracle of lib/e8.py.
Real `check()` runs concretely per program.  Symbolic: one (definedness) or two (types) vectors of branch decisions.
  soundness      accepted => no decision vector reaches a read of an unassigned variable, and no two vectors reach one read
                 site with the variable holding different types
  completeness   rejected with 'not defined' => the solver produces a vector reaching an unassigned read;
                 rejected with 'different types' => the solver produces two vectors with a type conflict at one read site"""
import ast
import importlib.util
import itertools
import json
import os
import lib.repo_env
from lib import e8

N = int(os.environ.get("VERIF_C08_N", "30"))
SEED = int(os.environ.get("VERIF_C08_SEED", "0"))
DEPTH = int(os.environ.get("VERIF_C08_DEPTH", "2"))
BATCH = [int(i) for i in os.environ.get("VERIF_C08_BATCH", "0").split(",")]
WHICH = int(os.environ.get("VERIF_C08_WHICH", "0"))
KNOWN_WHY = os.environ.get("VERIF_C08_WHY")
L = 10
LT = 8       # decisions per path for the two-path (type) conditions

ALL = e8.corpus(N, SEED, DEPTH)
SRCS = [ALL[i] for i in BATCH if i < len(ALL)]
NB = len(SRCS)
_dir = os.environ.get("VERIF_TWIN_DIR") or "/var/tmp"
_tag = f"{BATCH[0]}-{BATCH[-1]}x{len(BATCH)}"
VERDICT = []
if KNOWN_WHY is None:
    lib.repo_env.shim()
    from guppylang_internals.error import GuppyError
    _path = os.path.join(_dir, f"c08mod_{_tag}_{os.getpid()}.py")
    with open(_path, "w") as _f:
        _f.write(e8.module_text(SRCS))
    _spec = importlib.util.spec_from_file_location(f"c08mod_{os.getpid()}", _path)
    MOD = importlib.util.module_from_spec(_spec)
    import sys
    sys.modules[_spec.name] = MOD
    _spec.loader.exec_module(MOD)
    for _d in MOD.PROGRAMS:
        try:
            _d.check()
            VERDICT.append(("accepted", ""))
        except GuppyError as _e:
            VERDICT.append(("rejected", type(_e.error).__name__))
        except Exception as _e:  # noqa: BLE001
            VERDICT.append(("crashed", f"{type(_e).__name__}: {_e}"))
    with open(os.path.join(_dir, f"c08verdict_{_tag}.json"), "w") as _f:
        json.dump([{"index": i, "verdict": v[0], "why": v[1], "src": s} for i, v, s in zip(BATCH, VERDICT, SRCS)], _f)
else:
    VERDICT = [("rejected", KNOWN_WHY) if i == WHICH else ("?", "") for i in range(NB)]
FNS = [ast.parse(s).body[0] for s in SRCS]
LAST_DETAIL = None


def _pick(which):
    k = 0
    for i in range(NB):
        if which == i:
            k = i
    return k


def h_sound_defined(which: int, c0: bool, c1: bool, c2: bool, c3: bool, c4: bool, c5: bool, c6: bool, c7: bool, c8: bool, c9: bool) -> bool:
    """
    pre: 0 <= which < NB
    post: _
    """
    global LAST_DETAIL
    k = _pick(which)
    if VERDICT[k][0] != "accepted":
        return True
    r = e8.run_defined(FNS[k], [c0, c1, c2, c3, c4, c5, c6, c7, c8, c9])
    if r.startswith("undefined"):
        LAST_DETAIL = f"ACCEPTED by the real checker, but on decisions {[c0, c1, c2, c3, c4, c5, c6, c7, c8, c9]} a read is reached unassigned ({r}):\n{SRCS[k]}"
        return False
    return True


def h_sound_types(which: int, c0: bool, c1: bool, c2: bool, c3: bool, c4: bool, c5: bool, c6: bool, c7: bool,
                  d0: bool, d1: bool, d2: bool, d3: bool, d4: bool, d5: bool, d6: bool, d7: bool) -> bool:
    """
    pre: 0 <= which < NB
    post: _
    """
    global LAST_DETAIL
    k = _pick(which)
    if VERDICT[k][0] != "accepted":
        return True
    # soundness explores all pairs of vectors of 6 decisions (4096 pairs at most); the witness conditions below may use 8 + 8
    r = e8.run_types(FNS[k], [c0, c1, c2, c3, c4, c5], [d0, d1, d2, d3, d4, d5])
    if r.startswith("conflict"):
        LAST_DETAIL = f"ACCEPTED by the real checker, but {r} (decisions {[c0, c1, c2, c3, c4, c5]} / {[d0, d1, d2, d3, d4, d5]}):\n{SRCS[k]}"
        return False
    return True


def h_never_undefined(c0: bool, c1: bool, c2: bool, c3: bool, c4: bool, c5: bool, c6: bool, c7: bool, c8: bool, c9: bool) -> bool:
    """
    post: _
    """
    # for one program (VERIF_C08_WHICH) rejected as 'not defined': expected to be refuted by a path to an unassigned read
    global LAST_DETAIL
    r = e8.run_defined(FNS[WHICH], [c0, c1, c2, c3, c4, c5, c6, c7, c8, c9], dead_as_live=True)
    if r.startswith("undefined"):
        LAST_DETAIL = f"witness path for {VERDICT[WHICH][1]}: {r}"
        return False
    return True


def h_never_conflict(c0: bool, c1: bool, c2: bool, c3: bool, c4: bool, c5: bool, c6: bool, c7: bool,
                     d0: bool, d1: bool, d2: bool, d3: bool, d4: bool, d5: bool, d6: bool, d7: bool) -> bool:
    """
    post: _
    """
    global LAST_DETAIL
    r = e8.run_types(FNS[WHICH], [c0, c1, c2, c3, c4, c5, c6, c7], [d0, d1, d2, d3, d4, d5, d6, d7])
    if r.startswith("conflict"):
        LAST_DETAIL = f"witness for {VERDICT[WHICH][1]}: {r}"
        return False
    return True


def h_defined_exhaustive():
    """True: a witness exists; False: none exists and no path was cut off by the bound (a definite disagreement);
    'inconclusive': none within the bound, but some path needs more decisions than the bound allows"""
    global LAST_DETAIL
    cut = False
    for cs in itertools.product([False, True], repeat=L):
        r = e8.run_defined(FNS[WHICH], list(cs), dead_as_live=True)
        if r.startswith("undefined"):
            return True
        cut = cut or r == "out-of-choices"
    if cut:
        LAST_DETAIL = f"no witness with {L} decisions, longer paths exist"
        return "inconclusive"
    LAST_DETAIL = f"REJECTED by the real checker with {VERDICT[WHICH][1]}, but no decision vector of length {L} reaches an unassigned read:\n{SRCS[WHICH]}"
    return False


def h_conflict_exhaustive():
    global LAST_DETAIL
    vs = list(itertools.product([False, True], repeat=LT))
    cut = any(e8.run_defined(FNS[WHICH], list(c)) == "out-of-choices" for c in vs)
    for c in vs:
        for d in vs:
            if e8.run_types(FNS[WHICH], list(c), list(d)).startswith("conflict"):
                return True
    if cut:
        LAST_DETAIL = f"no witness with {LT} decisions per path, longer paths exist"
        return "inconclusive"
    LAST_DETAIL = f"REJECTED by the real checker with {VERDICT[WHICH][1]}, but no pair of decision vectors gives one read site two types:\n{SRCS[WHICH]}"
    return False
