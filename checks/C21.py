from lib.core import Ctx, Job

H = "harness/C21_dispatch.py"


def run(ctx: Ctx) -> int:
    t = ctx.pick(120, 400)
    jobs = [Job(H, fn, timeout=t) for fn in ("h_binary", "h_unary", "h_every_dunder", "h_tables", "h_constants")]
    ctx.functions_encoded = ["tracing/object.py: DunderMixin (every dunder, read from the class at run time), binary_operation, unary_operation, binary_table/"
                             "reverse_binary_table/unary_table", "checker/expr_checker.py: ExprSynthesizer._synthesize_binary, binary_table, unary_table",
                             "tracing/util.py: capture_guppy_errors",
                             "tracing/unpacking.py: guppy_object_from_py (scalar constants: type and payload independent of the constants converted before, 10 constants incl. 2/2.0, 1/True, 0.0/-0.0, all ordered pairs)"]
    ctx.bounds = {"operators": "18 binary (12 arithmetic/bitwise, 6 comparisons), 3 unary + abs/bool/int/float, every dunder DunderMixin defines",
                  "operands": "traced value or Python constant on either side (at least one traced)", "type-check outcomes": "direct and reflected method each succeed or fail"}
    ctx.outside_claim = ["the values computed (follow from identical dispatch plus C04)", "containers, struct handling, len(), calls to Guppy functions (trace_call needs a HUGR builder)",
                         "guppy_object_from_py beyond scalar constants (tuples, lists, structs need HUGR ops)"]
    ctx.assumptions = ["stand-ins for the tracing state and for Globals.get_instance_func record (receiver, method, argument) and fail on demand",
                       "the Python data model table written in the harness (which dunder means what)"]
    ctx.crosshair(jobs)
    return ctx.finish(
        level="model_checking",
        rule="case = one path = one (operator, operand kinds, type-check outcomes); non-trivial = both the comptime and the regular dispatch ran and were compared",
        explanation="CrossHair/z3 symbolic execution of the real comptime dunder dispatch and the real regular-mode binary synthesis under the same symbolic type-check outcomes; both must denote the source expression",
        trusted_base=["CPython 3.12 operator protocol", "crosshair-tool 0.0.110", "z3 5.1", "import shim"],
    )
