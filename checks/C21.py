from lib.core import Ctx, Job

H = "harness/C21_dispatch.py"
H2 = "harness/C21_lowering.py"


def run(ctx: Ctx) -> int:
    t = ctx.pick(120, 400)
    jobs = [Job(H, fn, timeout=t) for fn in ("h_binary", "h_unary", "h_every_dunder", "h_tables", "h_constants")]
    ctx.functions_encoded = ["tracing/object.py: DunderMixin (every dunder, read from the class at run time), binary_operation, unary_operation, binary_table/"
                             "reverse_binary_table/unary_table", "checker/expr_checker.py: ExprSynthesizer._synthesize_binary, binary_table, unary_table",
                             "tracing/util.py: capture_guppy_errors",
                             "tracing/unpacking.py: guppy_object_from_py (scalar constants: type and payload independent of the constants converted before, 10 constants incl. 2/2.0, 1/True, 0.0/-0.0, all ordered pairs)"]
    ctx.bounds = {"operators": "18 binary (12 arithmetic/bitwise, 6 comparisons), 3 unary + abs/bool/int/float, every dunder DunderMixin defines",
                  "operands": "traced value or Python constant on either side (at least one traced)", "type-check outcomes": "direct and reflected method each succeed or fail"}
    ctx.outside_claim = ["bodies beyond the corpus; qubits and other non-copyable leaves (ownership is C22's subject)", "everything after the emitted HUGR",
                         "operations that exist in one mode only (branching on a traced value, `not`, `and` / `or` on traced values)"]
    ctx.assumptions = ["stand-ins for the tracing state and for Globals.get_instance_func record (receiver, method, argument) and fail on demand",
                       "the Python data model table written in the harness (which dunder means what)"]
    # lowering level: every body of the corpus under both decorators through /repo's whole pipeline; the two emitted HUGRs are interpreted side by side (lib/e7.py)
    import json, os
    from lib.core import Obligation
    nb = 31          # bodies 0..30 are the main corpus, body 31 lies inside the known finding
    for b in range(nb):
        jobs.append(Job(H2, "h_same", timeout=ctx.pick(600, 1200), name=f"h_same[body {b}]", env={"VERIF_C21_BATCH": str(b)}))
    KEY_N = "C21:python-int-argument-for-nat-parameter"
    jobs.append(Job(H2, "h_same", timeout=ctx.pick(200, 600), name="h_same[region python-int-argument-for-nat-parameter]", role=f"finding:{KEY_N}",
                    env={"VERIF_C21_BATCH": ",".join(map(str, range(nb + 1))), "VERIF_C21_REGION": "python-int-argument-for-nat-parameter"}))
    ctx.functions_encoded.append("lowering level: tracing/function.py trace_function / trace_call, tracing/object.py GuppyObject / GuppyStructObject, tracing/unpacking.py guppy_object_from_py / "
                                 "unpack_guppy_object / update_packed_value, tracing/builtins_mock.py (int / float / len / abs), definition/traced.py — and the regular pipeline for the same body; "
                                 "both emitted HUGRs interpreted by lib/e7.py")
    ctx.bounds["bodies"] = ("31 bodies (arithmetic and bitwise operators with constants on either side, mixed int / float, comparisons and & | ^ on bools, calls of opaque and of Guppy functions, tuples, "
                            "nested tuples, tuple returns incl. a 1-tuple, unrolled Python loops, arrays: construction, element reads / stores / augmented stores, arrays lent to borrowing functions "
                            "(with element copies read before the call, with plain Python constants inside, rows of arrays of arrays, an array inside a tuple), structs, int() / float() / abs() / len(), "
                            "equal-but-differently-typed constants, signed zeros, a traced nat next to Python int constants); x in [-3, 4], |y| <= 1000, |opaque results| <= 1000 (symbolic); for the bodies with bitwise / shift / power / float arithmetic x and y are enumerated by the solver over [-3, 4] x [-4, 4]")
    ctx.crosshair(jobs)
    rep = {"unsupported": {}, "paths_outside": {}, "lowered_both": 0, "bodies": 0, "guppy_side_not_lowered": []}
    import glob
    for f in sorted(glob.glob(os.path.join(ctx.workdir, "c21report_*.json"))):
        r = json.load(open(f))
        rep["unsupported"].update(r["unsupported"])
        rep["lowered_both"] += r["lowered_both"]
        rep["bodies"] += r["bodies"]
        rep["guppy_side_not_lowered"] += r["guppy_side_not_lowered"]
    ctx.extra["lowering"] = rep
    for idx, v, why in rep["guppy_side_not_lowered"]:
        ctx.add(Obligation(f"body #{idx} lowered as @guppy", "concrete", "not_confirmed", detail={"verdict": v, "why": why}))
    return ctx.finish(
        level="model_checking",
        rule="case = one path = one (operator, operand kinds, type-check outcomes); non-trivial = both the comptime and the regular dispatch ran and were compared",
        explanation="CrossHair/z3 symbolic execution of the real comptime dunder dispatch and the real regular-mode binary synthesis under the same symbolic type-check outcomes; both must denote the source expression",
        trusted_base=["CPython 3.12 operator protocol", "crosshair-tool 0.0.110", "z3 5.1", "import shim", "lib/e7.py HUGR interpreter (both sides are read by the same interpreter)"],
        extra_cov={"lowering_level": ctx.extra.get("lowering")},
    )
