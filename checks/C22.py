from lib.core import Ctx, Job

H = "harness/C22_ownership.py"


def run(ctx: Ctx) -> int:
    t = ctx.pick(200, 900)
    jobs = [Job(H, fn, timeout=t) for fn in ("h_use_once", "h_two_objects", "h_frozenlist_operators", "h_struct_setattr")]
    jobs += [Job(H, "h_frozenlist", timeout=t, name=f"h_frozenlist[shard {i + 1}/8]", env={"VERIF_C22_SHARD": f"{i}/8"}) for i in range(8)]
    jobs += [Job("harness/C22_scripts.py", "h_script", timeout=t, name="h_script[use scripts through the real tracer]", session_call="h_session()")]
    ctx.functions_encoded = ["tracing/function.py: trace_function (leak report at the end, borrowed arguments handed back), trace_call (arguments marked as used, write-back through "
                             "update_packed_value); tracing/unpacking.py: guppy_object_from_py, unpack_guppy_object, update_packed_value — through the real check() + lowering of "
                             "150 generated comptime functions","tracing/object.py: GuppyObject.__init__, GuppyObject._use_wire, ObjectUse, GuppyObjectId, GuppyStructObject.__init__/__getattr__/__setattr__",
                             "tracing/frozenlist.py: frozenlist (every override; the method list is taken from dir(list) at run time)", "tracing/util.py: get_calling_frame"]
    ctx.bounds = {"object": "copy/drop bounds symbolic (copyable => droppable), created used or unused, 0..3 uses", "frozenlist": "lists of 0..3 elements, every callable attribute of list x 11 argument tuples (solver-enumerated), "
                  "6 in-place statement forms", "struct": "frozen or not, fields of copyable (int) or non-copyable (array, qubit-like) type, 2 fields + 1 unknown name, symbolic value"}
    ctx.bounds["scripts"] = ("5 value kinds (owned qubit, local qubit, borrowed qubit, owned droppable non-copyable value, element of an owned qubit array) x every sequence of up to 3 uses "
                             "(lend / consume) x ending (fall off the end / return it) = 150 comptime functions; oracle = the statement's rule")
    ctx.outside_claim = ["comptime bodies that catch the tracer's exceptions themselves (try / except around an ill-typed call)", "explicit re-initialisation frozenlist.__init__(...) and object.__setattr__ bypasses",
                         "which containers unpack_guppy_object freezes"]
    ctx.assumptions = ["stand-in tracing state exposing unused_undroppable_objs", "copyable => droppable for every Guppy type"]
    ctx.crosshair(jobs)
    return ctx.finish(
        level="model_checking",
        rule="case = one path = one valuation of (bounds, creation state, number of uses) / (method, arguments, contents) / (frozen flag, field, value)",
        explanation="CrossHair/z3 symbolic execution of the real ownership bookkeeping of comptime objects, the real frozenlist under every list method, and the real struct object setattr",
        trusted_base=["CPython 3.12", "crosshair-tool 0.0.110", "z3 5.1", "import shim"],
    )
