from lib.core import Ctx, Obligation
from lib import e4_check


def run(ctx: Ctx) -> int:
    from lib import e7_corpus
    total = len(e7_corpus.corpus("c19"))
    jobs = e4_check.jobs_for(ctx, "c19", total, batch=1, timeout=ctx.pick(400, 1500), total=total, harness="harness/E7_equiv.py", fn="h_equiv7")
    KEY_W = "C19:store-of-a-whole-row-panics"
    jobs += e4_check.jobs_for(ctx, "c19", 1, batch=1, timeout=ctx.pick(200, 600), region="whole-row-store", key=KEY_W, total=1, harness="harness/E7_equiv.py", fn="h_equiv7")
    ctx.functions_encoded = ["guppylang/std/array.py: array.__getitem__ / __setitem__ / __iter__ / copy / __new__, ArrayIter.__next__, _array_unsafe_getitem; "
                             "std/_internal/compiler/array.py: ArrayGetitemCompiler, ArraySetitemCompiler (classical get/set + unwrap panic, borrow/return for rows), NewArrayCompiler, "
                             "CopyInoutCompiler; compiler/stmt_compiler.py: _assign_array / tuple-and-array unpacking incl. starred; compiler/expr_compiler.py: visit_DesugaredArrayComp — "
                             "through the real check() + CompilerContext.compile; the emitted HUGR is interpreted by lib/e7.py"]
    ctx.bounds = {"programs": f"{total} fixed programs: reads, stores and augmented stores with unconstrained indices on an int array of length 3 and on a 2 x 3 array of arrays; "
                              "indices passed to borrowing callees; full and starred unpacking (several targets after the star); three-level arrays with a computed outer index, lent to a callee and updated in place; for-iteration; array comprehension; copy()",
                  "indices": "x in [-3, 4] and results of opaque calls in [-1000, 1000] (symbolic): negative, in range and too large",
                  "oracle": "CPython with a list type that panics for every index outside [0, n) (the statement's rule; Python itself would wrap negative indices); panics are compared by kind, "
                            "together with the events before them"}
    ctx.outside_claim = ["arrays of qubits and the 'lending the same element twice panics' clause (needs two simultaneous borrows of one row: not expressible in an accepted classical program "
                         "without aliasing in the oracle)", "array lengths other than 2, 3, 4", "everything after the emitted HUGR (how the run time implements the array extension ops)"]
    ctx.assumptions = ["HUGR array extension ops as read by lib/e7.py: get returns None / set returns the error variant outside [0, n) (negative indices become huge unsigned ones through itousize), "
                       "borrow / return panic there"]
    ctx.crosshair(jobs)
    e7r = e4_check.collect_e5(ctx, "e7report")
    for idx, v, why in e7r.get("not_lowered", []):
        ctx.add(Obligation(f"program #{idx} lowered by /repo", "concrete", "not_confirmed", detail={"verdict": v, "why": why}))
    return ctx.finish(
        level="translation_validation",
        rule="program = one fixed program; per program CrossHair explores every path of (bounds-checking list oracle on the source || interpretation of the HUGR /repo emits) for symbolic "
             "indices and values; returned value, panic-or-not and the events before a panic must agree",
        explanation="translation validation of array access: the statement's bounds rule executed by CPython vs the HUGR emitted by /repo's back end, for all indices within the bounds",
        trusted_base=["CPython 3.12", "crosshair-tool 0.0.110", "z3 5.1", "import shim", "lib/e7.py HUGR interpreter incl. its reading of the array extension ops"],
        extra_cov={"stage3_emitted_hugr": e7r, "programs": total},
    )
