"""C16 — implicit numeric coercions only widen (E1 for the decision, E3 for the value)."""
from lib.core import Ctx, Job, Obligation, VERIF_ROOT

H = "harness/C16_coerce.py"
VALUE_OBLIGATIONS = ["nat.__int__", "nat.__float__", "int.__float__"]


def run(ctx: Ctx) -> int:
    ctx.crosshair([Job(H, fn, timeout=ctx.pick(60, 200)) for fn in ("h_try_coerce", "h_check_type_against", "h_kind_order")]
                  + [Job("harness/C16_programs.py", "h_program", timeout=ctx.pick(200, 600), name="h_program[expected x form x position through the real check()]")])
    from lib import e3_run

    e3_run.init([])
    b = e3_run._STATE["b"]
    for n in VALUE_OBLIGATIONS:
        r = e3_run.solve_named(n, ctx.pick(30, 120), ctx.pick(30, 120))
        ob = Obligation(f"value preserved by {n} ({r['desc']})", r["engine"],
                        {"unsat": "confirmed", "sat": "counterexample"}.get(r["result"], "not_confirmed"),
                        solver_s=r["solver_s"], wall_s=r["solver_s"],
                        bounds={"domain": "all 64-bit patterns; nat->int compared modulo 2^64 (equal as integers whenever n < 2^63); "
                                          "->float compared with round-to-nearest-even of the unsigned/signed value"},
                        detail={"binding": r["desc"], "attempts": r["attempts"]})
        if r["result"] == "sat":
            rp = r["replay"]
            ob.detail.update(model=r["model"], replay=rp)
            if rp["reproduced"]:
                p = ctx.write_script(f"C16_cx_{n.replace('.', '_')}.py",
                                     f"#!/verif/.venv/bin/python\nimport sys\nsys.path.insert(0, {VERIF_ROOT!r})\nfrom lib.e3_run import replay_main\n"
                                     f"sys.exit(replay_main({n!r}, {r['model']!r}, []))\n")
                ctx.violation(f"{n}{tuple(r['model'])}: Guppy gives {rp['guppy']}, Python gives {rp['python']}", p)
                ctx.samples.append({"obligation": n, "operands": r["model"]})
            else:
                ob.verdict = "error"
                ctx.harness_errors.append(f"{n}: model does not reproduce")
        ctx.add(ob)
    # nat.__int__ must be the identity on the bit pattern (value equal for n < 2^63) and the coercion dunders must exist
    kinds = {k: (b[k].kind, b[k].op) for k in [("nat", "__int__"), ("nat", "__float__"), ("int", "__float__")]}
    ctx.notes.append(f"live bindings used by coercions: {kinds}")
    ctx.functions_encoded = ["checker/expr_checker.py: try_coerce_to, check_type_against (non-generic branch); tys/ty.py: NumericType.Kind ordering",
                             "checker/expr_checker.py + stmt_checker.py: every position that checks an expression against an expected numeric type, incl. visit_ComptimeExpr and literals (through the real check())",
                             "guppylang/std/num.py: nat.__int__, nat.__float__, int.__float__ (live bindings, E3)"]
    ctx.bounds = {"type_pairs": "all 81 ordered pairs from a pool of 9 real types (3 numeric, 6 non-numeric)", "values": "all 64-bit patterns"}
    ctx.bounds["programs"] = "3 expected types x 15 expression forms (variables, literals, comptime values, operator results) x 4 positions (assignment, argument, return, operand) through the real check()"
    ctx.outside_claim = ["the value a coerced comptime constant takes (C17 decides constants)",
                         "float targets for |value| where binary64 cannot represent it exactly: rounded to nearest (stated in the property)"]
    ctx.assumptions = ["recording stand-in for Context/Globals/CallableDef.check_call", "E3 semantics tables (see C04)"]
    return ctx.finish(
        level="model_checking",
        rule="E1: one path per (actual, expected) type pair through the real coercion code; E3: one SMT obligation per conversion dunder over all 64-bit values",
        explanation="CrossHair/z3 on the real try_coerce_to/check_type_against with real type objects, plus SMT obligations from the live conversion bindings",
        trusted_base=["CPython 3.12", "crosshair-tool 0.0.110", "z3 5.1", "import shim", "lib/e3_num.py tables"],
    )
