from lib.core import Ctx, Job

H = "harness/C23_mock.py"


def run(ctx: Ctx) -> int:
    jobs = [Job(H, "h_same_dict_two_functions", timeout=ctx.pick(60, 200)), Job(H, "h_trace_function", timeout=ctx.pick(120, 300))]
    for l1 in (0, 1):
        for l2 in (0, 1, 2):
            lv3 = (2,) if ctx.quick else (0, 1, 2)
            for l3 in lv3:
                if l2 == 2 and l3 != 2:
                    continue
                tag = f"{l1},{l2},{l3}"
                jobs.append(Job(H, "h_restore", timeout=ctx.pick(90, 300), name=f"restore[levels={tag}]",
                                env={"VERIF_C23_LEVELS": tag}))
    ctx.functions_encoded = ["guppylang_internals/tracing/builtins_mock.py: mock_builtins (contextmanager, incl. finally block)",
                             "guppylang_internals/tracing/function.py: trace_function up to and including the traced call (which callables' globals get mocked), driven with a stand-in builder; "
                             "tracing/state.py: set_tracing_state"]
    ctx.bounds = {"modules": 2, "nesting_depth": ctx.pick(2, 3), "user_bindings": "2^3 per module, symbolic (nesting conditions); 3^3 incl. a name bound to the builtin itself (same-module and trace_function conditions)",
                  "traced callable": "plain | behind a functools.wraps decorator of the same module | of another module | both",
                  "exception": "raised at any nesting level or not at all; caught at the enclosing level or propagated through two levels"}
    ctx.outside_claim = ["traced bodies that themselves assign module globals", "sys.excepthook (exception_hook) and the tracing ContextVar are interpreter state, not the user's module"]
    ctx.assumptions = ["mock_builtins is the only code that writes to a user module's globals during tracing (grep over tracing/ and definition/traced.py)"]
    ctx.crosshair(jobs)
    return ctx.finish(
        level="model_checking",
        rule="case = one path = one valuation of (user bindings of both modules, nesting shape, raise point); non-trivial = harness completed and "
             "compared key order and value identity of both globals dicts with the snapshot",
        explanation="CrossHair/z3 symbolic execution of the real mock_builtins context manager under every nesting/exception schedule within the bound",
        trusted_base=["CPython 3.12", "crosshair-tool 0.0.110", "z3 5.1"],
    )
