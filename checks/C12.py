"""C12 — unification: exhaustive bounded term grammar, z3 (finite trees) decides the statement's own quantifiers."""
import concurrent.futures as cf
import os
import time

from lib.core import Ctx, Obligation, VERIF_ROOT

H = "harness/C12_unify.py"
_M = {}


def _init():
    import lib.repo_env  # noqa: F401
    from lib.xh_worker import load_module

    _M["m"] = load_module(os.path.join(VERIF_ROOT, H))


def _block(level, rows, ns):
    t0 = time.time()
    r = _M["m"].run_block(level, rows, ns)
    r["wall_s"] = time.time() - t0
    r["rows"] = (rows[0], rows[-1])
    return r


def run(ctx: Ctx) -> int:
    level = ctx.tier
    ns = 8
    _init()
    m = _M["m"]
    u = m.universe(level)
    n = len(u)
    chunk = max(1, n // (ctx.par * 6))
    blocks = [list(range(a, min(n, a + chunk))) for a in range(0, n, chunk)]
    results = []
    with cf.ProcessPoolExecutor(max_workers=ctx.par, initializer=_init) as ex:
        for r in ex.map(_block, [level] * len(blocks), blocks, [ns] * len(blocks)):
            results.append(r)
    total = sum(r["cases"] for r in results)
    fails = [f for r in results for f in r["fails"]]
    ob = Obligation(f"unify agrees with the finite-tree oracle on every (term, term, prior substitution) of the {level} grammar",
                    "z3-adt", "confirmed" if not fails else "counterexample",
                    bounds={"terms": n, "prior_substitutions": ns, "cases": total},
                    wall_s=sum(r["wall_s"] for r in results), solver_s=sum(r["wall_s"] for r in results))
    ctx.add(ob)
    seen = set()
    for (i, j, s0, detail) in fails[:8]:
        call = f"h_case({level!r}, {i}, {j}, {s0})"
        ok, path = ctx.replay(H, call)
        if ok is not True:
            ctx.harness_errors.append(f"{call} does not reproduce")
            continue
        ctx.violation(f"{call}: {str(detail)[:400]}", path)
        ctx.samples.append({"case": call, "detail": str(detail)[:300]})
    ctx.samples.append({"example_terms": [str(t) for t in u[:: max(1, n // 12)]][:12]})
    # stage 2: the consequence for generic calls, through the real check()
    from lib.core import Job
    nsh = ctx.pick(4, 16)
    ctx.crosshair([Job("harness/C12_calls.py", "h_call", timeout=ctx.pick(300, 1500), name=f"h_call[generic calls,shard {i + 1}/{nsh}]",
                       env={"VERIF_C12_LEVEL": level, "VERIF_C12_SHARD": f"{i}/{nsh}"}) for i in range(nsh)])
    ctx.functions_encoded = ["tys/ty.py: unify, _unify_var, _occurs, _unify_args; TypeBase.substitute; tys/subst.py: Substituter; unsolved_vars of every type class",
                             "checker/expr_checker.py: check_call, synthesize_call, type_check_args, ExprChecker.visit_Tuple / ExprSynthesizer (generic calls through the real check())"]
    ctx.bounds = {"terms": n, "grammar": "leaves int/float/None/inference vars a,b/bound var T; 1-/2-tuples, array[T,n] (n in 0,2,m,n), Option, list, two generic structs, "
                  "1-/2-input functions (owned/borrowed qubit inputs), generic function; " + ("plus nested tuple, Option[array], higher-order function" if ctx.quick else "one further constructor layer over a reduced inner pool"),
                  "prior_substitutions": "8 consistent (acyclic, kind-correct) substitutions of <= 2 bindings", "cases": total, "exhaustive_over_grammar": True,
                  "generic calls": "9 parameter shapes x 14 argument expressions for unary functions, and " + ("every 37th of the 15876 binary combinations" if ctx.quick else "all 15876 binary combinations")}
    ctx.outside_claim = ["terms outside the grammar", "kind-incorrect instantiations (copyable variable := qubit; variable := generic function type): skipped, rejected later by check_inst",
                         "generic calls beyond the grid of stage 2 (9 parameter shapes over T, U; 14 argument expressions of bool/int/tuple type; 1 and 2 parameters; no numeric coercions)"]
    ctx.assumptions = ["z3's theory of algebraic datatypes as the decision procedure for 'some assignment makes the terms identical' (acyclicity = occurs check)",
                       "the encoding of real Type objects into the datatype (harness/C12_unify.py:enc)"]
    return ctx.finish(
        level="model_checking",
        rule="case = (term, term, prior substitution) from the exhaustively enumerated grammar, run through the real unify; three z3 ADT queries per case decide existence of a unifier, "
             "soundness and most-generality of the returned substitution; distinct by construction; non-trivial = all of them (each is a different unification problem)",
        explanation="bounded-exhaustive over the term grammar; the statement's quantifiers over assignments are decided by z3 (finite trees), not sampled",
        trusted_base=["CPython 3.12", "z3 5.1 (ADT theory)", "import shim"],
        extra_cov={"exhaustive": True, "evaluations": total, "distinct_nontrivial": total - 0},
    )
