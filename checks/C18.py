from lib.core import Ctx, Job

H = "harness/C18_range.py"
KEY = "C18:range-next-overflow"


def run(ctx: Ctx) -> int:
    L = ctx.pick(6, 32)
    t = ctx.pick(90, 1800)
    env = {"VERIF_C18_L": L}
    jobs = [Job(H, fn, timeout=t, env=env, name=f"{fn}[L={L}]") for fn in
            ("h_range3", "h_range2", "h_range1", "h_range_comptime", "h_overload_order")]
    jobs.append(Job(H, "h_range3_overflow_region", timeout=t, env=env, role=f"finding:{KEY}",
                    name=f"h_range3_overflow_region[L={L}]"))
    ctx.functions_encoded = ["guppylang/std/iter.py: Range.__iter__, Range.__next__, _range1, _range2, _range3, _range_comptime "
                             "(bodies compiled unchanged, + - * wrapped to 64 bit), decorator list of `range`"]
    ctx.bounds = {"start/stop/step": "whole int64 domain, step != 0", "unrolled_next_calls": L + 1,
                  "comptime_n": f"0..{L}"}
    ctx.outside_claim = [f"elements beyond the first {L} of a range", "overload *selection* by the type checker (C15)",
                         "comptime nat sizes >= 2^63"]
    ctx.assumptions = ["Python models of Option/struct constructors", "int + is iadd (wrapping), comparisons are signed (decided under C04)",
                       "SizedIter(...) is a no-op cast (NoopCompiler binding read under C04's table)"]
    ctx.crosshair(jobs)
    return ctx.finish(
        level="model_checking",
        rule="case = one path through the unrolled iteration for symbolic int64 start/stop/step; non-trivial = precondition met and at least one __next__ executed",
        explanation="CrossHair/z3 symbolic execution of /repo's Range iterator source over the whole int64 domain, first L elements compared with Python's range",
        trusted_base=["CPython 3.12", "crosshair-tool 0.0.110", "z3 5.1", "lib/guppy_models.py"],
    )
