from lib.core import Ctx
from lib import e4_check

KEY_H = "C05:hoisted-subexpression-evaluated-before-earlier-operands"
KEY_C = "C05:chained-comparison-middle-operand-evaluated-twice"


def run(ctx: Ctx) -> int:
    n = ctx.pick(60, 600)
    from lib import e4_corpus
    nfixed = len(e4_corpus.corpus("c05", n, ctx.seed)) - n       # fixed programs + array-flavoured generated ones, all outside the regions
    jobs = e4_check.jobs_for(ctx, "c05", n, batch=1, timeout=ctx.pick(150, 900), total=n + nfixed, single_upto=12)
    for region, key in (("hoist-order", KEY_H), ("chain-middle", KEY_C)):
        want = ctx.pick(6, 30)
        have = len(e4_corpus.corpus("c05", want, ctx.seed, region))     # the generator may find fewer programs inside a region
        jobs += e4_check.jobs_for(ctx, "c05", want, batch=1, timeout=ctx.pick(120, 600), region=region, key=key, total=have)
    ctx.functions_encoded = ["cfg/builder.py: ExprBuilder.generic_visit/visit_IfExp/visit_NamedExpr/visit_Call/visit_UnaryOp, BranchBuilder.visit_BoolOp/visit_Compare/visit_IfExp/visit_UnaryOp/"
                             "generic_visit, CFGBuilder statement visitors (where expressions are built relative to the statement)",
                             "the real check() decides which corpus programs are accepted (concretely)"]
    ctx.bounds = {"programs": f"{n} generated (seed {ctx.seed}) + {nfixed} leading programs (fixed effect-heavy ones and {e4_corpus.n_array(n)} generated over an int array) outside the known-finding regions, plus probes inside each region",
                  "events": "calls of the opaque f g h (symbolic results), emit(v), panic(msg); compared as ordered lists of (callee, argument values)",
                  "inputs": "x in [-3, 4], y in [-1000, 1000], results of the first 8 opaque calls unbounded ints"}
    ctx.functions_encoded.append("stage 2: checker/expr_checker.py + stmt_checker.py + cfg_checker.py (operator -> dunder resolution incl. reflected forms, inserted coercions, for -> __iter__/__next__/Option protocol, "
                                 "place decomposition), std/iter.py range / Range.__next__ and std/num.py bindings as reached by the programs, interpreted by lib/e5.py")
    ctx.bounds["stage 2"] = "first %d programs of the corpus through the checked CFGs; opaque results bounded by |r| <= 1000; paths with a 64-bit overflow, inside a known C04 region or out of fuel are outside" % ctx.pick(30, 250)
    ctx.outside_claim = ["everything after the emitted HUGR (packaging, validation, LLVM lowering, run-time scheduling of unordered pure nodes)", "qubit allocation / measurement order", "arrays of non-copyable elements other than arrays, array comprehensions, array indices outside [0, n) (C19)",
                         "programs inside the known-finding regions (there only the finding itself is re-established)"]
    ctx.assumptions = ["a block's statements execute in list order, its predicate last; successors[1] = true"]
    KEY_R = "C05:reflected-comparison-evaluates-right-operand-first"
    have = len(e4_corpus.corpus("c05", 6, ctx.seed, "reflected-compare"))
    jobs += e4_check.jobs_for(ctx, "c05", 6, batch=1, timeout=ctx.pick(200, 600), region="reflected-compare", key=KEY_R, total=have,
                              harness="harness/E5_equiv.py", fn="h_equiv5")
    for region, key in (("subscript-order", "C05:subscript-of-temporary-evaluates-index-before-container"),
                        ("nested-subscript-order", "C05:nested-subscript-evaluates-outer-index-first")):
        have = len(e4_corpus.corpus("c05", 6, ctx.seed, region))
        jobs += e4_check.jobs_for(ctx, "c05", 6, batch=1, timeout=ctx.pick(200, 600), region=region, key=key, total=have,
                                  harness="harness/E5_equiv.py", fn="h_equiv5")
    # stage 2 (E5): the same programs through the *checked* CFGs of the real front end (operator resolution, coercions, iterator protocol, 64-bit arithmetic)
    jobs += e4_check.jobs_for(ctx, "c05", n, batch=1, timeout=ctx.pick(200, 900), total=n + nfixed, harness="harness/E5_equiv.py", fn="h_equiv5", single_upto=12,
                              upto=ctx.pick(30, 250))
    # stage 3 (E7): the same programs through the HUGR that /repo's back end emits for them (lib/e7.py); the two subscript-order findings are
    # decided by the back end, so they are probed at this level as well
    jobs += e4_check.jobs_for(ctx, "c05", n, batch=1, timeout=ctx.pick(200, 900), total=n + nfixed, harness="harness/E7_equiv.py", fn="h_equiv7", single_upto=12,
                              upto=ctx.pick(30, 250))
    for region, key in (("subscript-order", "C05:subscript-of-temporary-evaluates-index-before-container"),
                        ("nested-subscript-order", "C05:nested-subscript-evaluates-outer-index-first")):
        have = len(e4_corpus.corpus("c05", 6, ctx.seed, region))
        jobs += e4_check.jobs_for(ctx, "c05", 6, batch=1, timeout=ctx.pick(200, 600), region=region, key=key, total=have,
                                  harness="harness/E7_equiv.py", fn="h_equiv7")
    ctx.functions_encoded.append("stage 3: compiler/cfg_compiler.py, expr_compiler.py (visit_PlaceNode, _update_inout_ports, visit_SubscriptAccessAndDrop), stmt_compiler.py (_assign_place), "
                                 "func_compiler.py, core.py (CompilerContext.compile, track_hugr_side_effects, may_have_side_effect) and the std compilers reached by the programs: "
                                 "the emitted HUGR is interpreted by lib/e7.py")
    ctx.bounds["stage 3"] = ("first %d programs of the corpus through the emitted HUGR; same value bounds; every dataflow region must order its possibly side-effecting nodes "
                             "(calls, panics, containers of those) by value / state-order edges" % ctx.pick(30, 250))
    ctx.crosshair(jobs)
    v = e4_check.collect_verdicts(ctx)
    e5r = e4_check.collect_e5(ctx)
    ctx.extra["e5"] = e5r
    ctx.extra["e7"] = e4_check.collect_e5(ctx, "e7report")
    ctx.samples.extend({"program": p["src"], "verdict": p["verdict"]} for p in v["programs"][:3])
    return ctx.finish(
        level="translation_validation",
        rule="program = one corpus program accepted by the real check(); per program CrossHair explores every path of (CPython on the source || walk over the real CFG) for symbolic inputs and symbolic call results; event traces must be equal",
        explanation="translation validation of evaluation order: the event trace of CPython executing the source vs. the trace of the real builder's CFG, for all inputs and all results of opaque calls within the bounds",
        trusted_base=["CPython 3.12", "crosshair-tool 0.0.110", "z3 5.1", "import shim", "lib/e4.py block walker", "lib/e4_region.py region predicates of the known findings"],
        extra_cov={"stage2_checked_cfg": ctx.extra.get("e5"), "stage3_emitted_hugr": ctx.extra.get("e7"), "programs": max(v["accepted"], 1), "disagreements_checked": len(ctx.violations) + len(ctx.known_hits), "programs_rejected_by_checker": v["rejected"],
                   "rejected_why": v["rejected_why"], "distinct_nontrivial": v["accepted"]},
    )
