from lib.core import Ctx, Job

H = "harness/C17_literals.py"


def run(ctx: Ctx) -> int:
    t = ctx.pick(90, 400)
    jobs = [Job(H, fn, timeout=t) for fn in
            ("h_bounds_check", "h_literal_type", "h_literal_nested", "h_payload", "h_payload_nested", "h_negation_fold", "h_negation_in_program")]
    ctx.functions_encoded = [
        "checker/expr_checker.py: _int_bounds_check, python_value_to_guppy_type, _python_list_to_guppy_type (match desugared from current source)",
        "cfg/builder.py: ExprBuilder.visit_UnaryOp (match desugared); CFGBuilder/BranchBuilder.visit_Compare/visit_BoolOp on programs built around a negated symbolic literal",
        "compiler/expr_compiler.py: python_value_to_hugr (match desugared); std/_internal/compiler/arithmetic.py: UnsignedIntVal.to_value; installed hugr.std.int.IntVal.to_value"]
    ctx.bounds = {"v": "unbounded Python int (z3 Int)", "hints": "none/int/nat/float, element-wise inside tuples",
                  "shapes": "scalar, pair, nested pair, 2-element list, (float, int)"}
    ctx.outside_claim = ["what the emulator prints for the constant (back end + Selene)", "comptime expressions beyond plain values (evaluated by CPython's eval)"]
    ctx.assumptions = ["match-desugaring of lib/astx.py preserves behaviour (checked against the original functions on 186 concrete cases at import)"]
    ctx.crosshair(jobs)
    return ctx.finish(
        level="model_checking",
        rule="case = one path for an unbounded symbolic integer; non-trivial = literal classified/encoded by the real code and compared with the interval [-2^63,2^63-1] / [0,2^64-1] and the decoded payload",
        explanation="CrossHair/z3 symbolic execution of the real literal range check, literal typing, HUGR constant construction and negation folding over unbounded integers (linear integer arithmetic)",
        trusted_base=["CPython 3.12", "crosshair-tool 0.0.110", "z3 5.1", "import shim", "lib/astx.py match desugaring", "installed hugr IntVal"],
    )
