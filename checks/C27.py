from lib.core import Ctx, Job

H = "harness/C27_collections.py"
FNS = ["h_stack_push", "h_stack_pop", "h_stack_peek_len", "h_stack_next_discard", "h_stack_empty",
       "h_stack_history", "h_pq_push", "h_pq_pop", "h_pq_peek_len", "h_pq_next_discard", "h_pq_empty"]


def run(ctx: Ctx) -> int:
    ks = ctx.pick([4, 5], [4, 5, 6, 7])
    jobs = []
    for k in ks:
        for fn in FNS:
            jobs.append(Job(H, fn, timeout=ctx.pick(90, 900), name=f"{fn}[K={k}]", env={"VERIF_C27_K": k}))
    ctx.functions_encoded = [
        "guppylang/std/collections/stack.py: Stack.{__len__,__iter__,__next__,push,pop,peek,discard_empty}, empty_stack (bodies compiled unchanged from source)",
        "guppylang/std/collections/priority_queue.py: PriorityQueue.{__len__,__iter__,__next__,push,pop,peek,discard_empty}, empty_priority_queue"]
    ctx.bounds = {"capacity_K": ks, "pre_state": "any size in 0..K, arbitrary integer payloads/priorities (unbounded z3 Int), "
                  "representation invariant (prefix of `some`, heap order) assumed", "history_cross_check": "5 operations from empty"}
    ctx.outside_claim = ["capacities above the bound", "linearity of payloads", "HUGR lowering of these methods (back end)"]
    ctx.assumptions = ["Python models of Option/array/panic/struct constructors (lib/guppy_models.py)",
                       "a one-step-inductive invariant covers histories of any length",
                       "no aliasing between array elements (guaranteed by Guppy's linear types)"]
    ctx.crosshair(jobs)
    return ctx.finish(
        level="model_checking",
        rule="case = one path through the real method body from a symbolic pre-state; distinct by path; non-trivial = pre-state satisfies the representation invariant and the operation ran",
        explanation="CrossHair/z3 symbolic execution of /repo's Stack/PriorityQueue method bodies (Guppy source = Python syntax) under Python models of the primitives: one inductive step "
                    "per operation from an arbitrary valid pre-state, compared with a list / sorted-multiset reference model",
        trusted_base=["CPython 3.12", "crosshair-tool 0.0.110", "z3 5.1", "lib/guppy_models.py"],
    )
