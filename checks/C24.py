from lib.core import Ctx, Job

H = "harness/C24_unitary.py"
POSITIONS = ["expr-statement", "assignment-value", "return-value", "branch-predicate", "operand-of-binop", "argument-of-classical-call",
             "element-of-tuple", "annassign-value", "augassign-value"]
KINDS = ["local", "global", "tensor"]
SHAPES = ["qubit", "classical", "qubit+nested", "nested+qubit", "classical+nested", "qubit-array", "array-of-arrays", "nested-tuple", "array-of-options", "classical+3-deep-tuple",
          "struct-field", "classical-struct", "struct-with-qubit-array", "nested-struct", "generic-struct-of-qubit", "generic-struct-of-int", "array-of-generic-nested-structs"]


def run(ctx: Ctx) -> int:
    t = ctx.pick(120, 600)
    jobs = []
    kinds = ctx.pick((0, 1), (0, 1, 2))
    for pos in range(len(POSITIONS)):
        for kind in kinds:
            if ctx.quick and pos not in ((0, 1, 3, 5, 6) if kind == 0 else (0, 3)):
                continue
            for shape in range(len(SHAPES)):
                if ctx.quick and shape >= 6 and not (pos == 0 and kind == 0):
                    continue    # the deeper type shapes exercise contain_qubit_ty, which does not depend on position or callee kind
                jobs.append(Job(H, "h_call", timeout=t, name=f"h_call[{POSITIONS[pos]},{KINDS[kind]},{SHAPES[shape]}]",
                                env={"VERIF_C24_POS": pos, "VERIF_C24_KIND": kind, "VERIF_C24_SHAPE": shape}))
    for pos in (0, 3, 5, 6):
        jobs.append(Job(H, "h_exempt", timeout=t, name=f"h_exempt[{POSITIONS[pos]}]", env={"VERIF_C24_POS": pos}))
    for kind in kinds:
        jobs.append(Job(H, "h_dagger_places", timeout=t, name=f"h_dagger_places[{KINDS[kind]}]", env={"VERIF_C24_KIND": kind}))
    jobs.append(Job(H, "h_dagger_syntax", timeout=t))
    jobs.append(Job(H, "h_sequence", timeout=t, name="h_sequence[one callee, two contexts in a row]", env={"VERIF_C24_KIND": 1}))
    jobs.append(Job("harness/C24_public.py", "h_public", timeout=t, name="h_public[4 programs through @guppy(unitary=True).check()]"))
    ctx.functions_encoded = ["checker/unitary_checker.py: BBUnitaryChecker.check, _check_call, _check_classical_args, visit_GlobalCall/LocalCall/TensorCall/"
                             "BarrierExpr/StateResultExpr/Assign/AnnAssign/AugAssign/PlaceNode, check_cfg_unitary, check_invalid_under_dagger",
                             "tys/qubit.py: contain_qubit_ty; checker/core.py: contains_subscript; ast_util.py: loop_in_ast, find_nodes"]
    ctx.bounds = {"context flags": "all 8 subsets of {control, dagger, power}", "callee flags": "all 8", "nested call flags": "all 8",
                  "argument shapes": "qubit | classical | qubit,nested | nested,qubit | classical,nested | array of qubits | array of arrays | tuple in tuple | array of options | 3-deep tuple | qubit in a struct field | classical struct | struct with qubit-array field | struct in struct | generic struct of qubit / of int | array of generic nested structs",
                  "positions": POSITIONS, "callee kinds": [KINDS[k] for k in kinds],
                  "dagger syntax": "8 function bodies with loops/assignments at different depths"}
    ctx.outside_claim = ["that the flags of a `with` block reach the body's CFG (CFGBuilder.visit_With / modifier_checker)",
                         "that compiled functions record their flags in HUGR metadata (back end)",
                         "GlobalCall resolves its type through a stand-in for ENGINE.get_parsed"]
    ctx.assumptions = ["hand-built checked blocks use the node classes and field layout the real checker emits"]
    ctx.crosshair(jobs)
    return ctx.finish(
        level="model_checking",
        rule="case = one path = one valuation of (context flags, callee flags, nested-call flags, argument shape) for a fixed position and callee kind; "
             "non-trivial = the real checker ran on the block and returned a verdict",
        explanation="CrossHair/z3 symbolic execution of the real unitary checker on checked blocks built from symbolic flag sets and shapes; oracle = the statement's rule",
        trusted_base=["CPython 3.12", "crosshair-tool 0.0.110", "z3 5.1", "import shim"],
    )
