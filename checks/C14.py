from lib.core import Ctx, Job

H = "harness/C14_copydrop.py"


def run(ctx: Ctx) -> int:
    jobs = [Job(H, "h_base_table", timeout=60), Job(H, "h_existential", timeout=ctx.pick(60, 200))]
    for k in range(12):
        jobs.append(Job(H, "h_layer1", timeout=ctx.pick(90, 300), name=f"layer1[k={k}]", env={"VERIF_C14_K1": k}))
        jobs.append(Job(H, "h_sequence", timeout=ctx.pick(90, 300), name=f"sequence[k1={k}]", env={"VERIF_C14_K1": k}))
        jobs.append(Job(H, "h_layer2", timeout=ctx.pick(120, 900), name=f"layer2[k1={k}]", env={"VERIF_C14_K1": k}))
    ctx.functions_encoded = [
        "tys/ty.py: TypeBase.{linear,affine,hugr_bound}, ParametrizedTypeBase.{copyable,droppable,hugr_bound}, TupleType, OpaqueType, StructType.{fields,intrinsically_*}, FunctionType, NumericType, NoneType, BoundTypeVar, ExistentialTypeVar",
        "tys/builtin.py: array/option/frozenarray/list/sized_iter/bool/string type defs (never_* flags, to_hugr)",
        "definition/struct.py: CheckedStructDef, StructField; tys/subst.py: Instantiator (struct field instantiation)",
        "compiler/core.py: requires_drop; std/quantum: qubit type def"]
    ctx.bounds = {"constructors": 12, "leaves": "2 type variables with symbolic (copyable, droppable) bounds (all 4 combinations each), int, qubit",
                  "nesting": "1 layer (all leaf choices) and 2 layers",
                  "sequence": "two classifications in one session over the same parameter index with independent bounds (any 2 of the 12 constructors)"}
    ctx.outside_claim = ["that insert_drops wires the drop op into the HUGR (back end)", "user-defined opaque types other than qubit"]
    ctx.assumptions = ["one constructor layer over children with arbitrary flags is the induction step for arbitrary nesting"]
    ctx.crosshair(jobs)
    return ctx.finish(
        level="model_checking",
        rule="case = one path = one (constructor(s), leaf choice, flag valuation); non-trivial = real type built and all of copyable/droppable/linear/affine/hugr_bound/to_hugr().type_bound()/requires_drop compared with the structural rule",
        explanation="CrossHair/z3 symbolic execution of the real type classes: flags of children symbolic, expected classification computed by the structural rule of the statement",
        trusted_base=["CPython 3.12", "crosshair-tool 0.0.110", "z3 5.1", "import shim", "installed hugr 0.18 type_bound()"],
    )
