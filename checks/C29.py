from lib.core import Ctx, Job

H = "harness/C29_render.py"
KEY = "C29:wrap-breaks-inside-long-or-hyphenated-words"
SHAPES = ["one-line span", "two-line span", "four-line span (middle elided)"]


def run(ctx: Ctx) -> int:
    t = ctx.pick(200, 900)
    jobs = []
    for shape in range(3):
        for nctx, prim in ((0, 1), (0, 0), (2, 1)) + (() if ctx.quick else ((1, 1), (3, 1), (2, 0))):
            nsh = 8 if (nctx > 0) else 1
            for sh in range(nsh):
                jobs.append(Job(H, "h_snippet_geometry", timeout=t,
                                name=f"h_snippet_geometry[{SHAPES[shape]},lines before={nctx},{'primary' if prim else 'secondary'},shard {sh + 1}/{nsh}]",
                                env={"VERIF_C29_SHAPE": shape, "VERIF_C29_NCTX": nctx, "VERIF_C29_PRIMARY": prim, "VERIF_C29_SHARD": f"{sh}/{nsh}"}))
        jobs.append(Job(H, "h_snippet_label", timeout=t, name=f"h_snippet_label[{SHAPES[shape]}]", env={"VERIF_C29_SHAPE": shape}))
        if shape == 0 or not ctx.quick:
            for sh in range(8):
                jobs.append(Job(H, "h_diagnostic", timeout=t, name=f"h_diagnostic[{SHAPES[shape]},shard {sh + 1}/8]",
                                env={"VERIF_C29_SHAPE": shape, "VERIF_C29_SHARD": f"{sh}/8"}))
    jobs.append(Job(H, "h_snippet_tabs", timeout=t))
    for fn in ("h_wrap_total", "h_wrap_faithful", "h_wrap_indents"):
        jobs.append(Job(H, fn, timeout=t))
    jobs.append(Job(H, "h_wrap_breaks_only_at_whitespace", timeout=t, role=f"finding:{KEY}"))
    ctx.functions_encoded = ["diagnostic.py: DiagnosticsRenderer.render_diagnostic, render_snippet (incl. nested render_line), level_str, wrap; Diagnostic/SubDiagnostic base classes",
                             "span.py: Span.__post_init__/__len__/is_multiline/shift_left, Loc.shift_left, SourceMap.add_file/span_lines"]
    ctx.bounds = {"indentation": "0..20 for the spanned lines and (when shown) the context lines, i.e. both sides of the 12-column threshold",
                  "span": "start offset 0..3, width 1..3; 1, 2 or 4 lines", "lines before": "0..3", "tabs": "TAB characters in the indentation (1, 2, 14, mixed), before the span and in context lines (60 cases)", "labels/messages": "5 texts each (none, short, multi-word, longer than the wrap width, two paragraphs)",
                  "wrap": "every string of length <= 3 (total) / <= 4 (faithful) over the alphabet {a, b, space, newline, -}, width 1..3"}
    ctx.outside_claim = ["terminal width / colours", "MietteRenderer (needs the miette-py extension module)", "spans that start or end inside leading white space (no AST node does)",
                         "texts longer than 4 characters for the symbolic-string conditions"]
    ctx.assumptions = ["spans start on and end after a non-blank character, as spans of AST nodes do"]
    jobs.append(Job(H, "h_reregistered", timeout=ctx.pick(60, 200), name="h_reregistered[file name registered twice]"))
    ctx.crosshair(jobs)
    return ctx.finish(
        level="model_checking",
        rule="case = one path = one valuation of (indentation, context indentation, offset, width) / (label, message, child kinds) / one symbolic string; the rendered buffer is parsed and compared with the source text and the span",
        explanation="CrossHair/z3 symbolic execution of the real renderer and wrap(); the rendered lines are parsed back: true line numbers, one common amount of removed indentation, markers exactly under the spanned columns, all words of labels/messages in order",
        trusted_base=["CPython 3.12 (textwrap)", "crosshair-tool 0.0.110", "z3 5.1"],
    )
