from lib.core import Ctx, Job

H = "harness/C30_span.py"


def run(ctx: Ctx) -> int:
    t = ctx.pick(40, 240)
    jobs = [Job(H, fn, timeout=t) for fn in
            ("h_contains_span", "h_contains_loc", "h_intersection", "h_other_file", "h_wellformed")]
    ctx.functions_encoded = ["guppylang_internals/span.py: Loc (dataclass order), Span.__post_init__, "
                             "Span.__contains__, Span.__and__, Span.__len__"]
    ctx.bounds = {"ints": "unbounded mathematical integers >= 0 (z3 Int) for every line/column",
                  "files": "two concrete file names, equal or different"}
    ctx.outside_claim = ["to_span (reads ast node attributes)", "SourceMap"]
    ctx.assumptions = ["CrossHair's model of tuple/dataclass ordering on ints"]
    ctx.crosshair(jobs)
    return ctx.finish(
        level="model_checking",
        rule="one CrossHair condition per sentence of the property; a case = one execution path through "
             "the real Span/Loc code, distinct by its branch decisions; non-trivial = precondition met and harness ran to its end",
        explanation="symbolic execution (CrossHair/z3) of the real span.py over unbounded integer line/column "
                    "numbers; 'confirmed' = path tree exhausted",
        trusted_base=["CPython 3.12", "crosshair-tool 0.0.110", "z3 5.1"],
    )
