from lib.core import Ctx, Job

H = "harness/C15_overload.py"


def run(ctx: Ctx) -> int:
    t = ctx.pick(200, 900)
    jobs = [Job(H, "h_first_applicable", timeout=t, env={"VERIF_C15_SHARD": "0/64"})]
    nsh = 4
    jobs += [Job(H, "h_programs", timeout=t, name=f"h_programs[shard {i + 1}/{nsh}]", env={"VERIF_C15_SHARD": f"{i}/{nsh}"}, session_call="h_session()") for i in range(nsh)]
    ctx.functions_encoded = ["definition/overloaded.py: OverloadedFunctionDef.check_call, synthesize_call, _call_error, OverloadNoMatchError, AvailableOverloadsHint",
                             "guppylang/decorator.py: guppy.overload; checker/expr_checker.py: check_call / synthesize_call of the variants, numeric coercion of arguments (through the real check())"]
    ctx.bounds = {"kernel": "1..4 variants, each succeeding or raising a GuppyError (symbolic), synthesis and checking", "programs": "22 overload sets (arity, int/float/nat/bool, generic, tuple, differing result types, overload sets nested as variants, variants that accept an earlier argument and fail on a later one, variants sharing one Python function name; 2-4 variants, "
                  "overlapping) x 14 argument lists x 4 positions (synthesis; checked against int / float / bool) = 1232 calls, each compared with the direct calls of its variants"}
    ctx.outside_claim = ["run-time behaviour of the selected variant (follows from the checked call naming it)", "overload sets of the standard library other than through the programs above (range, result, panic are exercised by C18 / C32)",
                         "variants that raise a non-Guppy exception"]
    ctx.assumptions = ["'accepts the arguments' = the real checker accepts the direct call of that variant in the same position"]
    ctx.crosshair(jobs)
    return ctx.finish(
        level="model_checking",
        rule="kernel: case = one path = one valuation of (number of variants, which succeed, mode); programs: case = one overloaded call, solver-enumerated, judged against the direct calls of its variants through the real check()",
        explanation="CrossHair/z3 symbolic execution of the real overload resolution loop with stand-in variants, plus the real check() on 1232 overloaded calls compared with the first directly applicable variant",
        trusted_base=["CPython 3.12", "crosshair-tool 0.0.110", "z3 5.1", "import shim"],
    )
