import glob
import json
import os

from lib.core import Ctx, Job

H = "harness/C08_defined.py"
UNDEF = {"VarNotDefinedError", "VarMaybeNotDefinedError"}
TYPES = {"BranchTypeError"}


def run(ctx: Ctx) -> int:
    n, depth, nfixed = ctx.pick(70, 1200), ctx.pick(2, 3), len(__import__("lib.e8", fromlist=["FIXED"]).FIXED)
    B = 6
    base = {"VERIF_C08_N": n, "VERIF_C08_SEED": ctx.seed, "VERIF_C08_DEPTH": depth}
    jobs = []
    for b in range(0, n + nfixed, B):
        chunk = list(range(b, min(b + B, n + nfixed)))
        env = {**base, "VERIF_C08_BATCH": ",".join(map(str, chunk))}
        jobs.append(Job(H, "h_sound_defined", timeout=ctx.pick(200, 900), name=f"h_sound_defined[{chunk[0]}..{chunk[-1]}]", env=env))
        jobs.append(Job(H, "h_sound_types", timeout=ctx.pick(200, 900), name=f"h_sound_types[{chunk[0]}..{chunk[-1]}]", env=env))
    ctx.crosshair(jobs)
    progs = {}
    for f in sorted(glob.glob(os.path.join(ctx.workdir, "c08verdict_*.json"))):
        for r in json.load(open(f)):
            progs[r["index"]] = r
    progs = [progs[i] for i in sorted(progs)]
    jobs2 = []
    for rec in progs:
        if rec["verdict"] == "rejected" and rec["why"] in UNDEF | TYPES:
            i = rec["index"]
            b0 = (i // B) * B
            chunk = list(range(b0, min(b0 + B, n + nfixed)))
            env = {**base, "VERIF_C08_BATCH": ",".join(map(str, chunk)), "VERIF_C08_WHICH": i - b0, "VERIF_C08_WHY": rec["why"]}
            if rec["why"] in UNDEF:
                jobs2.append(Job(H, "h_never_undefined", timeout=ctx.pick(120, 600), name=f"witness_for_rejection[{i}:{rec['why']}]", env=env,
                                 expect="counterexample", exhaustive_call="h_defined_exhaustive()", note=f"program {i} rejected with {rec['why']}"))
            else:
                jobs2.append(Job(H, "h_never_conflict", timeout=ctx.pick(120, 600), name=f"witness_for_rejection[{i}:{rec['why']}]", env=env,
                                 expect="counterexample", exhaustive_call="h_conflict_exhaustive()", note=f"program {i} rejected with {rec['why']}"))
        elif rec["verdict"] == "crashed":
            ctx.notes.append(f"program {rec['index']}: checker raised a non-Guppy exception ({rec['why']}) - C02's subject")
    ctx.crosshair(jobs2)
    acc = sum(r["verdict"] == "accepted" for r in progs)
    rej = sum(r["verdict"] == "rejected" and r["why"] in UNDEF | TYPES for r in progs)
    other = [f"{r['index']}:{r['why']}" for r in progs if r["verdict"] == "rejected" and r["why"] not in UNDEF | TYPES]
    why = {}
    for r in progs:
        if r["verdict"] == "rejected":
            why[r["why"]] = why.get(r["why"], 0) + 1
    ctx.functions_encoded = ["cfg/analysis.py: AssignmentAnalysis (definite / maybe assignment), LivenessAnalysis; cfg/cfg.py: CFG.analyze; cfg/bb.py: VariableStats/compute_variable_stats; "
                             "checker/cfg_checker.py: check_cfg (VarNotDefinedError / VarMaybeNotDefinedError at uses), check_rows_match (BranchTypeError at joins), diagnose_maybe_undefined — all through the real check()"]
    ctx.bounds = {"programs": f"{n} generated (seed {ctx.seed}, depth {depth}) + {nfixed} fixed: assignments of int/bool/float/tuple constants and copies to a, b, c, type-agnostic reads (generic sink), "
                              "if/else, while, for over range, break, continue, return, nesting depth as given",
                  "paths": "definedness: all decision vectors of up to 10 conditions; types: soundness over all pairs of vectors of up to 6 conditions, witnesses searched among pairs of up to 8 + 8 (symbolic)"}
    ctx.outside_claim = ["reads inside dead code (statements after a jump, bodies of `if False:`): the compiler analyses them as if reachable; assignments in dead code ARE in (they make the name a local, as in Python)", "nested function definitions reading outer variables (capturing closures are an experimental feature)",
                         "the wording, labels and spans of the diagnostic (only its class)", f"programs rejected for another reason ({len(other)} in this run)"]
    ctx.assumptions = ["every syntactic path is feasible (conditions are opaque calls; `for` bodies may run zero times), the reading the property prescribes",
                       "lib/e8.py oracle is the executable statement of 'reaches a read unassigned' and 'one read site, two types'"]
    ctx.samples.extend({"program": r["src"], "verdict": r["verdict"], "why": r["why"]} for r in progs[:3])
    return ctx.finish(
        level="translation_validation",
        rule="program = one corpus program with the real checker's verdict; soundness: accepted => CrossHair finds neither an unassigned read nor a type conflict; completeness: rejected => CrossHair produces the path (pair) the rejection class promises (replayed)",
        explanation="the real checker's definedness / branch-type verdicts are validated against a path oracle over all paths (pairs of paths) within the bound, branch decisions symbolic (CrossHair/z3)",
        trusted_base=["CPython 3.12", "crosshair-tool 0.0.110", "z3 5.1", "import shim", "lib/e8.py oracle and generator"],
        extra_cov={"programs": max(acc + rej, 1), "disagreements_checked": len(ctx.violations), "accepted": acc, "rejected_undefined_or_types": rej,
                   "rejected_otherwise": other, "rejection_classes": why, "distinct_nontrivial": acc + rej},
    )
