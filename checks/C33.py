from lib.core import Ctx, Job

H = "harness/C33_experimental.py"
S = "harness/C33_sites.py"


def run(ctx: Ctx) -> int:
    n = ctx.pick(4, 6)
    jobs = []
    if ctx.quick:
        prefixes = [[a] for a in range(7)]
    else:
        prefixes = [[a, b] for a in range(7) for b in range(7)]
    for p in prefixes:
        tag = ",".join(map(str, p))
        jobs.append(Job(H, "h_script", timeout=ctx.pick(60, 300), name=f"script[len={n},prefix={tag}]",
                        env={"VERIF_C33_PREFIX": tag, "VERIF_C33_LEN": n}))
    jobs.append(Job(H, "h_with_statement", timeout=ctx.pick(60, 200)))
    jobs.append(Job(S, "h_sites", timeout=ctx.pick(120, 300)))
    jobs.append(Job(S, "h_sequence", timeout=ctx.pick(200, 400), name="h_sequence[one program under alternating settings in one session]"))
    ctx.functions_encoded = [
        "guppylang_internals/experimental.py: enable_experimental_features.{__init__,__enter__,__exit__}, "
        "disable_experimental_features.{...}, check_lists_enabled, check_function_tensors_enabled, "
        "check_capturing_closures_enabled, check_modifiers_enabled",
        "gate call sites reached through the real front end: cfg/builder.py visit_List/visit_With, "
        "checker/expr_checker.py (function tensors), checker/func_checker.py (capturing closures)"]
    ctx.bounds = {"script_length": n, "operations": "7 kinds incl. no-op; first op(s) fixed per process, rest symbolic",
                  "initial_flag": "symbolic", "gate_sites": "4 fixed programs x symbolic flag"}
    ctx.outside_claim = ["non-LIFO exit of context managers (not in the statement)",
                         "gated-feature shapes other than the 15 fixed programs (each of the 10 gate call sites is reached by at least one)"]
    ctx.assumptions = ["model of the intended behaviour: a stack of saved settings"]
    ctx.crosshair(jobs)
    return ctx.finish(
        level="model_checking",
        rule="case = one path (= one operation script with one initial flag); distinct by construction of the path tree; "
             "non-trivial = precondition met, script executed against the real module and compared with the stack model after every step",
        explanation="CrossHair/z3 symbolic execution of the real experimental.py under every script of enable/disable/"
                    "enter/exit(with and without exception) operations up to the stated length, flag and gate outcome "
                    "compared with a stack model after each step; plus the real front end on 15 programs (every gate call site) with a symbolic flag",
        trusted_base=["CPython 3.12", "crosshair-tool 0.0.110", "z3 5.1", "import shim"],
    )
