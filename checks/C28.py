from lib.core import Ctx, Job

H = "harness/C28_emulator.py"


def run(ctx: Ctx) -> int:
    jobs = [Job(H, "h_seed_takes_effect", timeout=ctx.pick(60, 120))]
    if ctx.quick:
        jobs.append(Job(H, "h_script", timeout=90, name="script[len=2]", env={"VERIF_C28_LEN": 2}))
        for k in range(9):
            jobs.append(Job(H, "h_script", timeout=150, name=f"script[len=3,first={k}]",
                            env={"VERIF_C28_LEN": 3, "VERIF_C28_PREFIX": k, "VERIF_C28_KSET": "0,2,4,5,8"}))
    else:
        # all scripts of length 3 over the 9 kinds, and scripts of length 4 whose ops 3 and 4 are drawn from the 5 seed / simulator kinds
        # (the unrestricted length-4 space took 82 min with 17 of 81 shards timing out)
        for k in range(9):
            jobs.append(Job(H, "h_script", timeout=600, name=f"script[len=3,first={k}]", env={"VERIF_C28_LEN": 3, "VERIF_C28_PREFIX": k}))
        for k in range(9):
            for k2 in range(9):
                jobs.append(Job(H, "h_script", timeout=600, name=f"script[len=4,first={k},{k2}]",
                                env={"VERIF_C28_LEN": 4, "VERIF_C28_PREFIX": f"{k},{k2}", "VERIF_C28_KSET": "0,2,4,5,8"}))
    ctx.functions_encoded = ["guppylang/emulator/instance.py: _Options, EmulatorInstance._with_option, with_* (12 methods), "
                             "statevector_sim/coinflip_sim/stabilizer_sim, run, _run_instance, _iterate_shots"]
    ctx.bounds = {"script_length": ctx.pick(3, 4), "operation_kinds": "9 incl. with_simulator of a simulator object shared between configurations (quick: ops 2 and 3 of length-3 scripts drawn from the 5 seed/simulator kinds; thorough: all length-3 scripts, and length-4 scripts whose ops 3 and 4 are drawn from those 5 kinds)", "parent": "any earlier instance (symbolic index)",
                  "values": "2 per operation", "base": "seeded or not (symbolic)"}
    ctx.outside_claim = ["selene's own determinism for a fixed effective configuration", "EmulatorBuilder (compilation)",
                         "user code mutating a simulator object after handing it over"]
    ctx.assumptions = ["effective seed of a component = its own random_seed if set, else the run-level seed "
                       "(selene_sim.instance.SeleneInstance._get_component_config, read from the installed selene)"]
    ctx.crosshair(jobs)
    return ctx.finish(
        level="model_checking",
        rule="case = one path = one derivation script (kinds, parents, values, seeded base); after every derivation the effective "
             "run configuration of every earlier instance is recomputed through the real run() and compared with its first value",
        explanation="CrossHair/z3 symbolic execution of /repo's EmulatorInstance under all derivation scripts up to the stated length against a recording SeleneInstance stand-in",
        trusted_base=["CPython 3.12", "crosshair-tool 0.0.110", "z3 5.1", "import shim", "installed selene_sim simulators (Quest/Stim/Coinflip objects)"],
    )
