from lib.core import Ctx, Job

H = "harness/C11_history.py"


def run(ctx: Ctx) -> int:
    L = ctx.pick(2, 3)
    nsh = ctx.pick(8, 64)
    jobs = [Job(H, "h_history", timeout=ctx.pick(300, 1500), name=f"h_history[L<={L},shard {i + 1}/{nsh}]", env={"VERIF_C11_L": L, "VERIF_C11_SHARD": f"{i}/{nsh}"})
            for i in range(nsh)]
    ctx.functions_encoded = ["engine.py: CompilationEngine.check / reset / get_parsed / get_checked, the check worklists, DefinitionStore (register_def / register_impl / sources)",
                             "definition/function.py, declaration.py, struct.py (parse / check, generated struct methods), checker/* and cfg/* as reached by the pool — all through the public .check()"]
    ctx.bounds = {"pool": "10 definitions: 5 rejected (branch types, maybe-undefined, closure gate, use after move, unsolved generic) and 5 accepted (closure with captures, struct with 4 fields, generic calls, nested for over range, array comprehension)",
                  "histories": f"every sequence of up to {L} earlier .check() calls on pool members (failing ones included), then the target, then the target again",
                  "observable": "rendered diagnostic, or the dump of the checked CFG (statements, places, types, block signatures as sorted rows), with object addresses and the session-global counter of temporaries normalised"}
    ctx.outside_claim = ["compile() / emulate() and the HUGR itself: /repo's back end cannot run here (the property's main observable) - this check covers the checking half only",
                         "histories longer than the bound; definitions outside the pool; redefinition of a function between checks"]
    ctx.assumptions = ["'first check of a session' is approximated by ENGINE.reset() + first use inside one interpreter; the first baseline of each process is taken before anything else was checked"]
    ctx.crosshair(jobs)
    return ctx.finish(
        level="model_checking",
        rule="case = one path = one (history, target), solver-enumerated; the target's outcome after the history and on an immediate re-check is compared with its first-check outcome",
        explanation="the real engine and checker run under every history of .check() calls within the bound (CrossHair/z3 enumerates histories and targets); outcomes must equal the history-free outcome",
        trusted_base=["CPython 3.12", "crosshair-tool 0.0.110", "z3 5.1", "import shim", "outcome normalisation of harness/C10_setorder.py"],
        extra_cov={"exhaustive": True},
    )
