from lib.core import Ctx, Job

H = "harness/C11_history.py"


def run(ctx: Ctx) -> int:
    L = ctx.pick(2, 3)
    nsh = ctx.pick(8, 64)
    jobs = [Job(H, "h_history", timeout=ctx.pick(400, 1500), name=f"h_history[L<={L},core pool,shard {i + 1}/{nsh}]", env={"VERIF_C11_L": L, "VERIF_C11_SHARD": f"{i}/{nsh}"}, session_call="h_session()")
            for i in range(nsh)]
    if not ctx.quick:
        jobs += [Job(H, "h_history", timeout=1500, name=f"h_history[L<=2,whole pool,shard {i + 1}/32]", env={"VERIF_C11_L": 2, "VERIF_C11_SHARD": f"{i}/32", "VERIF_C11_HPOOL": "all"}, session_call="h_session()")
                 for i in range(32)]
    ctx.functions_encoded = ["engine.py: CompilationEngine.check / reset / get_parsed / get_checked, the check worklists, DefinitionStore (register_def / register_impl / sources)",
                             "definition/function.py, declaration.py, struct.py (parse / check, generated struct methods), checker/* and cfg/* as reached by the pool — all through the public .check()"]
    ctx.functions_encoded.append("compiler/core.py CompilerContext.compile (worklist, monomorphization), cfg_compiler.py (compile_cfg, insert_return_vars), func_compiler.py, expr/stmt compilers: "
                                 "the HUGR emitted for every accepted pool member is part of its outcome (lib/e7.lower)")
    ctx.bounds = {"pool": "17 definitions: 8 rejected (branch types, maybe-undefined, closure gate, use after move, unsolved generic; a failing leaf, a caller of it and a caller of that caller) and 9 accepted "
                          "(closure with captures, struct with 4 fields, generic calls, nested for over range, array comprehension, a leaf shared by two callers, a function that never returns, "
                          "a comptime-monomorphised function instantiated twice)",
                  "histories": f"every sequence of up to {L} earlier check+lower calls on the 8 core pool members (the failing ones, the failing call chain, the shared leaf's user, the never-returning and the "
                               "twice-instantiated function, a closure), then any of the 17 targets, then the target again" + ("" if ctx.quick else "; and every sequence of up to 2 calls on the whole pool"),
                  "observable": "rendered diagnostic, or the dump of the checked CFG (statements, places, types, block signatures as sorted rows) followed by a structural dump of the emitted HUGR "
                                "(node kinds, op names, constants, function names, type arguments, parents, wiring), with object addresses and the session-global counter of temporaries normalised"}
    ctx.outside_claim = ["everything after the emitted HUGR: packaging (ENGINE.compile's last step is incompatible with the installed hugr), validation, emulate()",
                         "histories longer than the bound; definitions outside the pool; redefinition of a function between checks"]
    ctx.assumptions = ["'first check of a session' is approximated by ENGINE.reset() + first use inside one interpreter; the first baseline of each process is taken before anything else was checked"]
    ctx.crosshair(jobs)
    return ctx.finish(
        level="model_checking",
        rule="case = one path = one (history, target), solver-enumerated; the target's outcome after the history and on an immediate re-check is compared with its first-check outcome",
        explanation="the real engine and checker run under every history of .check() calls within the bound (CrossHair/z3 enumerates histories and targets); outcomes must equal the history-free outcome",
        trusted_base=["CPython 3.12", "crosshair-tool 0.0.110", "z3 5.1", "import shim", "outcome normalisation of harness/C10_setorder.py"],
        extra_cov={"exhaustive": True},
    )
