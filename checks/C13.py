from lib.core import Ctx, Job

H = "harness/C13_instantiate.py"
KINDS = ["TTT", "TNT", "NTN", "NNT", "TNN", "TDN", "TDD", "TTD", "ABE", "BNA", "EAB"]


def _all_kinds():
    import itertools
    out = []
    for v in itertools.product("TABEND", repeat=3):
        if v[0] == "D" or ("D" in v and v[0] not in "TABE"):
            continue      # a dependent const needs parameter 0 to be a type
        out.append("".join(v))
    return out


def run(ctx: Ctx) -> int:
    t = ctx.pick(300, 900)
    jobs = []
    nsh = 4
    kinds = KINDS if ctx.quick else _all_kinds()
    for k in kinds:
        for i in range(nsh):
            jobs.append(Job(H, "h_laws", timeout=t, name=f"h_laws[kinds={k},shard {i + 1}/{nsh}]", env={"VERIF_C13_KINDS": k, "VERIF_C13_SHARD": f"{i}/{nsh}"}))
        jobs.append(Job(H, "h_monomorphize", timeout=t, name=f"h_monomorphize[kinds={k}]", env={"VERIF_C13_KINDS": k, "VERIF_C13_SHARD": "0/1"}))
    ctx.functions_encoded = ["tys/ty.py: FunctionType.instantiate_partial / instantiate / unquantified, substitute, bound_vars; tys/subst.py: Instantiator, Substituter",
                             "tys/param.py: TypeParam / ConstParam with_idx, to_bound, to_existential, instantiate_bounds", "compiler/core.py: require_monomorphization, partially_monomorphize_args, compile_variable_idx"]
    ctx.bounds = {"signatures": "3 parameters; kind vectors " + (", ".join(KINDS) if ctx.quick else f"all {len(kinds)} well-formed vectors over T A B E N D") + " (T / A / B / E type parameters with bounds linear / copy-only / drop-only / copy+drop, N nat const, D const whose type is parameter 0); every parameter occurs in one input (8 shape vectors covering each of 3 shapes at each position) and in the output",
                  "instantiations": "all 8 masks of first-stage instantiation, 2 arguments per parameter (incl. nat/float for the type a dependent const takes its type from)"}
    ctx.outside_claim = ["run-time behaviour and HUGR of monomorphised functions (back end)", "generic structs' field instantiation (exercised under C14 and C31)", "more than 3 parameters; higher-rank function types",
                         "check_call's inference of the instantiation (C12 decides unify)"]
    ctx.assumptions = ["'a copy with the arguments substituted textually' is written out by hand in the harness for the shapes used"]
    ctx.crosshair(jobs)
    return ctx.finish(
        level="model_checking",
        rule="case = one path = one (occurrence shapes, first-stage mask, arguments) for a fixed kind vector, solver-enumerated; four laws compared with == on real Type objects",
        explanation="the real instantiation / substitution / monomorphisation-split code runs on every configuration within the bound (CrossHair/z3 enumerates the selector space); composition laws and a hand-written textual substitution are the oracle",
        trusted_base=["CPython 3.12", "crosshair-tool 0.0.110", "z3 5.1", "import shim"],
        extra_cov={"exhaustive": True},
    )
