from lib.core import Ctx
from lib import e4_check

KEY_H = "C03:hoisted-walrus-assigned-before-earlier-operands"


def run(ctx: Ctx) -> int:
    n = ctx.pick(120, 900)
    from lib import e4_corpus
    from lib.e4_region import tags
    nfixed = len(e4_corpus.corpus("c03", n, ctx.seed)) - n       # fixed programs + array-flavoured generated ones, all outside the regions
    jobs = e4_check.jobs_for(ctx, "c03", n, batch=1, timeout=ctx.pick(150, 900), total=n + nfixed, single_upto=12)
    want = ctx.pick(3, 12)
    have = len(e4_corpus.corpus("c03", want, ctx.seed, "hoist-order"))
    jobs += e4_check.jobs_for(ctx, "c03", want, batch=1, timeout=ctx.pick(120, 600), region="hoist-order", key=KEY_H, total=have)
    ctx.functions_encoded = ["cfg/builder.py: CFGBuilder.build/visit_* (Assign, AugAssign, If, While, For, Break, Continue, Return, FunctionDef, Expr), ExprBuilder (NamedExpr, IfExp, "
                             "short-circuit temporaries, UnaryOp folding), BranchBuilder (BoolOp, Compare chains, not, IfExp, constants), template_replace for `for`",
                             "cfg/cfg.py: CFG.new_bb/link/dummy_link, pruning of unreachable blocks; cfg/bb.py: BB edge convention",
                             "the real check() decides which corpus programs are accepted (concretely)"]
    ctx.bounds = {"programs": f"{n} generated (seed {ctx.seed}) + {nfixed} fixed, all outside the known-finding regions; statements: assign, aug-assign, tuple unpack, if/elif/else, bounded while, "
                              "for over range, break, continue, return, dead code, nested non-capturing def; expressions: + - * unary -, comparisons, chains, and/or/not, conditional expression, walrus, opaque calls",
                  "inputs": "x in [-3, 4] (loop bounds), y in [-1000, 1000], results of the first 8 opaque calls unbounded ints", "fuel": "80 block visits on the CFG side"}
    ctx.functions_encoded.append("stage 2: checker/expr_checker.py + stmt_checker.py + cfg_checker.py (operator -> dunder resolution incl. reflected forms, inserted coercions, for -> __iter__/__next__/Option protocol, "
                                 "place decomposition), std/iter.py range / Range.__next__ and std/num.py bindings as reached by the programs, interpreted by lib/e5.py")
    ctx.bounds["stage 2"] = "first %d programs of the corpus through the checked CFGs; opaque results bounded by |r| <= 1000; paths with a 64-bit overflow, inside a known C04 region or out of fuel are outside" % ctx.pick(36, 300)
    ctx.outside_claim = ["HUGR validity, linear values and everything after the emitted HUGR (packaging, validation, LLVM lowering, run time)", "64-bit wrap-around of arithmetic (C04)",
                         "field mutation of structs (rejected by /repo), nat arithmetic at HUGR level", "programs larger than the generator's depth bound", "programs inside the regions of the known findings (probed separately)"]
    ctx.assumptions = ["edge convention successors[1] = true branch, successors[0] = false branch", "models of the iterator protocol nodes (MakeIter / IterNext) in lib/e4.py"]
    # stage 2 (E5): the same programs through the *checked* CFGs of the real front end (operator resolution, coercions, iterator protocol, 64-bit arithmetic)
    jobs += e4_check.jobs_for(ctx, "c03", n, batch=1, timeout=ctx.pick(200, 900), total=n + nfixed, harness="harness/E5_equiv.py", fn="h_equiv5", single_upto=12,
                              upto=ctx.pick(36, 300))
    # stage 3 (E7): the same programs through the HUGR that /repo's back end emits for them (lib/e7.py)
    jobs += e4_check.jobs_for(ctx, "c03", n, batch=1, timeout=ctx.pick(200, 900), total=n + nfixed, harness="harness/E7_equiv.py", fn="h_equiv7", single_upto=12,
                              upto=ctx.pick(36, 300))
    ctx.functions_encoded.append("stage 3: compiler/cfg_compiler.py, expr_compiler.py, stmt_compiler.py, func_compiler.py, core.py (CompilerContext.compile, track_hugr_side_effects, "
                                 "monomorphization) and the std compilers reached by the programs: the emitted HUGR is interpreted by lib/e7.py")
    ctx.bounds["stage 3"] = "first %d programs of the corpus through the emitted HUGR; same value bounds; in addition every dataflow region must order its possibly side-effecting nodes" % ctx.pick(36, 300)
    ctx.crosshair(jobs)
    v = e4_check.collect_verdicts(ctx)
    e5r = e4_check.collect_e5(ctx)
    ctx.extra["e5"] = e5r
    ctx.extra["e7"] = e4_check.collect_e5(ctx, "e7report")
    ctx.samples.extend({"program": p["src"], "verdict": p["verdict"]} for p in v["programs"][:3])
    return ctx.finish(
        level="translation_validation",
        rule="program = one corpus program accepted by the real check(); per program CrossHair explores every path of (CPython on the source || walk over the real CFG) for symbolic inputs",
        explanation="translation validation of the real CFGBuilder's output against CPython's execution of the same source, for all inputs within the bounds (CrossHair/z3), on a generated corpus",
        trusted_base=["CPython 3.12", "crosshair-tool 0.0.110", "z3 5.1", "import shim", "lib/e4.py block walker"],
        extra_cov={"stage2_checked_cfg": ctx.extra.get("e5"), "stage3_emitted_hugr": ctx.extra.get("e7"), "programs": max(v["accepted"], 1), "disagreements_checked": len(ctx.violations) + len(ctx.known_hits), "programs_rejected_by_checker": v["rejected"],
                   "rejected_why": v["rejected_why"], "distinct_nontrivial": v["accepted"]},
    )
