from lib.core import Ctx, Job

H = "harness/C31_printing.py"
KEY = "C31:tuple-as-sole-type-argument"


def run(ctx: Ctx) -> int:
    depth = ctx.pick(2, 3)
    nsh = ctx.pick(8, 48)
    t = ctx.pick(200, 1500)
    jobs = [Job(H, "h_roundtrip", timeout=t, name=f"h_roundtrip[depth={depth},shard {i + 1}/{nsh}]",
                env={"VERIF_C31_DEPTH": depth, "VERIF_C31_SHARD": f"{i}/{nsh}"}) for i in range(nsh)]
    jobs.append(Job(H, "h_roundtrip", timeout=t, name="h_roundtrip[region: tuple as the only type argument]", role=f"finding:{KEY}",
                    env={"VERIF_C31_DEPTH": 1, "VERIF_C31_REGION": 1}))
    for i in range(16):
        jobs.append(Job(H, "h_distinct_names", timeout=ctx.pick(300, 900), name=f"h_distinct_names[shard {i + 1}/16]", env={"VERIF_C31_DEPTH": 0, "VERIF_C31_SHARD": f"{i}/16"}))
    ctx.functions_encoded = ["tys/printing.py: TypePrinter (all _visit_* incl. _fresh_name and the bound/existential name tables), reached through str(ty)",
                             "tys/parsing.py: type_from_ast, arg_from_ast, _try_parse_defn, _arg_from_instantiated_defn, tuple / None / subscript forms; definition/ty.py + struct.py: check_instantiate of the type defs"]
    ctx.bounds = {"types": f"all first-order types of constructor depth <= {depth} over int nat float bool str None () Plain qubit, tuples of 1-3 elements, array[T, 2], Option[T], frozenarray[T, 3], generic structs with 1 and 2 "
                           "type parameters and with a type + nat parameter (children of binary constructors from the first 12/6 types of the level below)",
                  "names": "generic function types with <= 3 parameters and <= 3 inference variables, display names from a pool with clashes (T, U, T), and <= 3 variables from the pool (T, T, T_1, T1, T_) whose members look like disambiguated names; each variable occurring once or twice"}
    ctx.outside_claim = ["function types as components (the statement excludes them)", "types deeper than the bound", "list[T] (experimental)", "types inside the region of the known finding (probed separately)"]
    ctx.assumptions = ["the printer and parser work on str / C-level ast objects: each explored path is one concrete type, the solver enumerates the selector space (stated, not hidden)"]
    jobs.append(Job(H, "h_existential_mix", timeout=ctx.pick(200, 600), name="h_existential_mix[20 x 20 fresh type / constant variables]"))
    ctx.crosshair(jobs)
    return ctx.finish(
        level="model_checking",
        rule="case = one path = one type (round trip) / one naming configuration; non-trivial = the real printer and the real parser both ran and the results were compared with ==",
        explanation="every type of the bounded grammar goes through the real str(ty) and the real type_from_ast; the solver (CrossHair/z3) enumerates the selector space exhaustively; name uniqueness over symbolic name choices",
        trusted_base=["CPython 3.12 (ast.parse)", "crosshair-tool 0.0.110", "z3 5.1", "import shim"],
        extra_cov={"exhaustive": True},
    )
