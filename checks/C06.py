import glob
import json
import os

from lib.core import Ctx, Job

H = "harness/C06_linearity.py"
LIN = {"AlreadyUsedError", "PlaceNotUsedError", "UnnamedExprNotUsedError", "UnnamedFieldNotUsedError", "UnnamedTupleNotUsedError",
       "NotOwnedError", "BorrowShadowedError", "BorrowSubPlaceUsedError", "DropAfterCallError", "UnnamedSubscriptNotUsedError"}


def run(ctx: Ctx) -> int:
    n, depth, nfixed = ctx.pick(60, 1200), ctx.pick(2, 3), 37
    B = 6
    base = {"VERIF_C06_N": n, "VERIF_C06_SEED": ctx.seed, "VERIF_C06_DEPTH": depth}
    jobs = []
    for b in range(0, n + nfixed, B):
        chunk = list(range(b, min(b + B, n + nfixed)))
        jobs.append(Job(H, "h_sound", timeout=ctx.pick(200, 900), name=f"h_sound[{chunk[0]}..{chunk[-1]}]",
                        env={**base, "VERIF_C06_BATCH": ",".join(map(str, chunk))}))
    ctx.crosshair(jobs)
    # the verdict files of phase 1 tell which programs the real checker rejected with a linearity error
    progs = []
    for f in sorted(glob.glob(os.path.join(ctx.workdir, "c06verdict_*.json"))):
        progs += json.load(open(f))
    progs.sort(key=lambda r: r["index"])
    jobs2 = []
    for rec in progs:
        if rec["verdict"] == "rejected" and rec["why"] in LIN:
            i = rec["index"]
            b0 = (i // B) * B
            chunk = list(range(b0, min(b0 + B, n + nfixed)))
            jobs2.append(Job(H, "h_no_fault_on_any_path", timeout=ctx.pick(120, 600), name=f"witness_for_rejection[{i}:{rec['why']}]",
                             env={**base, "VERIF_C06_BATCH": ",".join(map(str, chunk)), "VERIF_C06_WHICH": i - b0, "VERIF_C06_WHY": rec["why"]},
                             expect="counterexample", exhaustive_call="h_complete_exhaustive()", note=f"program {i} rejected with {rec['why']}"))
        elif rec["verdict"] == "crashed":
            ctx.notes.append(f"program {rec['index']}: checker raised a non-Guppy exception ({rec['why']}) - C02's subject")
    ctx.crosshair(jobs2)
    acc = sum(r["verdict"] == "accepted" for r in progs)
    rej = sum(r["verdict"] == "rejected" and r["why"] in LIN for r in progs)
    other = [f"{r['index']}:{r['why']}" for r in progs if r["verdict"] == "rejected" and r["why"] not in LIN]
    why = {}
    for r in progs:
        if r["verdict"] == "rejected":
            why[r["why"]] = why.get(r["why"], 0) + 1
    ctx.functions_encoded = ["checker/linearity_checker.py: BBLinearityChecker (visit_* for places, calls with owned/borrowed arguments, assignments, returns), check_cfg_linearity, live-variable based "
                             "leak detection at block exits; checker/cfg_checker.py: check_cfg/check_bb/check_rows_match; cfg/analysis.py (liveness); checker/core.py: Place/Variable/FieldAccess — all through the real check()"]
    ctx.bounds = {"programs": f"{n} generated (seed {ctx.seed}, depth {depth}) + {nfixed} fixed, core fragment: allocation, borrowing and consuming calls (1 and 2 arguments), moves, swap, tuple pack/unpack, struct "
                              "construction / field borrow / field move / field re-assignment, if/else, while, break, continue, return; 6 signatures (owned, borrowed, struct, returning a qubit)",
                  "paths": "all decision vectors of up to 10 opaque conditions per program (symbolic); longer paths are outside the bound"}
    ctx.outside_claim = ["comprehensions, subscript (array element) places, closures, with blocks", "conditions correlated through variables (the oracle treats every syntactic path as feasible, as the property does)",
                         "the HUGR produced for accepted programs", "which error is reported for a rejected program (only that it is a linearity error)",
                         f"programs rejected for a non-linearity reason ({len(other)} in this run)"]
    ctx.assumptions = ["lib/e6.py path oracle is the executable statement of the property on one path", "the real checker runs concretely; the solver ranges over paths, not over programs"]
    ctx.samples.extend({"program": r["src"], "verdict": r["verdict"], "why": r["why"]} for r in progs[:3])
    return ctx.finish(
        level="translation_validation",
        rule="program = one core-fragment program with the real checker's verdict; soundness: accepted => CrossHair finds no faulting decision vector; completeness: rejected with a linearity error => CrossHair produces a faulting decision vector (replayed)",
        explanation="the real linearity checker's accept/reject decision is validated against a dynamic path oracle over all paths within the bound (symbolic branch decisions, CrossHair/z3)",
        trusted_base=["CPython 3.12", "crosshair-tool 0.0.110", "z3 5.1", "import shim", "lib/e6.py oracle and generator"],
        extra_cov={"programs": max(acc + rej, 1), "disagreements_checked": len(ctx.violations), "accepted": acc, "rejected_with_linearity_error": rej,
                   "rejected_otherwise": other, "rejection_classes": why, "distinct_nontrivial": acc + rej},
    )
