from lib.core import Ctx
from lib import e4_check


def run(ctx: Ctx) -> int:
    from lib import e4_syntax
    total = len(e4_syntax.programs())
    jobs = e4_check.jobs_for(ctx, "c32", total, batch=4, timeout=ctx.pick(200, 900), total=total)
    cov = e4_syntax.coverage()
    ctx.functions_encoded = ["cfg/builder.py: CFGBuilder.visit_* / generic_visit (which statement kinds are built, which raise UnsupportedError), ExprBuilder, BranchBuilder",
                             "checker/func_checker.py: check_signature / check_nested_func_def (defaults, *args, decorators); checker/expr_checker.py + stmt_checker.py: which expression / "
                             "statement kinds are checked or rejected — all through the real check()"]
    ctx.bounds = {"programs": f"{total}: one per Python statement kind, optional clause (loop else, keyword arguments, decorators, defaults, *args/**kwargs, kw-only/pos-only, with-as, assert message, "
                              "try handlers/finally) and expression kind, each observable in the result or event trace",
                  "node classes of CPython's ast present in the corpus": cov["node_classes_present"], "absent": cov["node_classes_absent"],
                  "optional clauses present": cov["optional_clauses_present"],
                  "inputs": "x in [-3, 4], y in [-1000, 1000], results of opaque calls unbounded ints"}
    ctx.functions_encoded.append("stage 2: the checked CFG of every accepted program (checker/expr_checker.py, stmt_checker.py: what the checker keeps of each construct) interpreted by lib/e5.py")
    ctx.outside_claim = ["await / async for / async with directly in the function body (CPython itself refuses to compile them outside an async def)",
                         "constructs inside comptime functions, struct definitions and type annotations", "combinations of two unsupported constructs"]
    ctx.assumptions = ["a construct 'takes effect as in Python' iff CPython's execution of the source and the walk over the real CFG agree on result and event trace for all inputs within the bound",
                       "rejection with any GuppyError counts as a compile error"]
    # stage 2 (E5): every accepted program also through the checked CFGs of the real front end
    jobs += e4_check.jobs_for(ctx, "c32", total, batch=3, timeout=ctx.pick(300, 900), total=total, harness="harness/E5_equiv.py", fn="h_equiv5")
    # stage 3 (E7): and through the HUGR /repo's back end emits (a construct the checker keeps but the lowering drops would show here)
    jobs += e4_check.jobs_for(ctx, "c32", total, batch=3, timeout=ctx.pick(300, 900), total=total, harness="harness/E7_equiv.py", fn="h_equiv7")
    ctx.functions_encoded.append("stage 3: the HUGR emitted for every accepted program (compiler/*.py) interpreted by lib/e7.py")
    ctx.crosshair(jobs)
    v = e4_check.collect_verdicts(ctx, crash_is_note=True)
    ctx.extra["e5"] = e4_check.collect_e5(ctx)
    ctx.extra["e7"] = e4_check.collect_e5(ctx, "e7report")
    table = {p["src"].split("(")[0].split()[-1]: (p["verdict"] + (":" + p["why"] if p["why"] else "")) for p in v["programs"]}
    ctx.samples.extend({"program": p["src"], "verdict": p["verdict"], "why": p["why"]} for p in v["programs"][:4])
    return ctx.finish(
        level="translation_validation",
        rule="program = one syntax-kind program; the real check() decides accepted/rejected; every accepted program is compared (CPython on the source || walk over the real CFG) on all paths for symbolic inputs",
        explanation="every Python statement/expression kind and optional clause is put through the real front end; whatever it accepts must behave as CPython executes it, for all inputs within the bounds",
        trusted_base=["CPython 3.12", "crosshair-tool 0.0.110", "z3 5.1", "import shim", "lib/e4.py block walker", "lib/e4_syntax.py corpus"],
        extra_cov={"stage2_checked_cfg": ctx.extra.get("e5"), "stage3_emitted_hugr": ctx.extra.get("e7"), "programs": max(v["accepted"] + v["rejected"], 1), "disagreements_checked": len(ctx.violations), "accepted": v["accepted"], "rejected": v["rejected"],
                   "verdict_table": table, "distinct_nontrivial": v["accepted"] + v["rejected"], "exhaustive": False},
    )
