from lib.core import Ctx, Obligation
from lib import e4_check


def run(ctx: Ctx) -> int:
    from lib import e7_corpus
    ngen = ctx.pick(12, 120)
    total = len(e7_corpus.corpus("c07", None, ngen, ctx.seed))
    jobs = e4_check.jobs_for(ctx, "c07", ngen, batch=1, timeout=ctx.pick(400, 1500), total=total, harness="harness/E7_equiv.py", fn="h_equiv7")
    ctx.functions_encoded = ["compiler/expr_compiler.py: ExprCompiler.visit_GlobalCall / visit_LocalCall, _compile_call_args, _update_inout_ports (write-back of borrowed arguments, "
                             "`__setitem__` write-back for subscript places), visit_PlaceNode; compiler/stmt_compiler.py: _assign_place; checker/expr_checker.py: check_place_assignable, "
                             "synthesize_instance_func; checker/linearity_checker.py (the programs must be accepted); std/_internal/compiler/array.py (get / set / borrow / return lowerings) — "
                             "all through the real check() + CompilerContext.compile; the emitted HUGR is interpreted by lib/e7.py"]
    ctx.bounds = {"programs": f"{total - ngen} fixed programs + {ngen} generated ones (seed {ctx.seed}: 3-6 borrowing calls on two int arrays and an array of arrays, computed and effectful indices / values, some under if / for): callees that set, add to, swap, rotate and fill a borrowed int array; nested borrowing calls; two arrays borrowed by one call; "
                              "a borrowed row of an array of arrays (constant and computed row index); an array held in a struct field, in a tuple element and in a struct that is itself an array element; borrows inside loops and branches",
                  "inputs": "x in [-3, 4], y in [-1000, 1000], results of the first 8 opaque calls in [-1000, 1000] (symbolic)",
                  "oracle": "CPython executes the same source with lists (reference semantics); the helper functions are the same text, annotations stripped"}
    ctx.outside_claim = ["qubits and gate application (nothing executes quantum ops here)", "mutation of classical struct fields (rejected by /repo)", "everything after the emitted HUGR",
                         "array indices outside [0, n) (C19)", "programs beyond the fixed list and the generated callers"]
    ctx.assumptions = ["lib/e7.py's reading of the HUGR array ops (value semantics, get / set / borrow / return) and of CFG / Conditional / Call nodes"]
    ctx.crosshair(jobs)
    e7r = e4_check.collect_e5(ctx, "e7report")
    for idx, v, why in e7r.get("not_lowered", []):
        ctx.add(Obligation(f"program #{idx} lowered by /repo", "concrete", "not_confirmed", detail={"verdict": v, "why": why}))
    return ctx.finish(
        level="translation_validation",
        rule="program = one fixed program; per program CrossHair explores every path of (CPython on the source || interpretation of the HUGR /repo emits) for symbolic inputs and opaque results; "
             "returned value, panic outcome and event trace must agree",
        explanation="translation validation of borrowed-argument write-back: CPython's reference semantics vs the HUGR emitted by /repo's back end, for all inputs within the bounds",
        trusted_base=["CPython 3.12", "crosshair-tool 0.0.110", "z3 5.1", "import shim", "lib/e7.py HUGR interpreter", "lib/e5.OPS int semantics (validated under C04)"],
        extra_cov={"stage3_emitted_hugr": e7r, "programs": total},
    )
