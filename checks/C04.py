"""C04 — numeric operators compute Python's results (engine E3 + a small E1 harness for the dispatch glue)."""
import concurrent.futures as cf
import json
import os
import time

from lib.core import Ctx, Job, Obligation, VERIF_ROOT

KEYS = ["C04:int-floordiv-mod-negative-divisor", "C04:int-rshift-negative-operand",
        "C04:float-floordiv-floors-rounded-quotient"]


def _names(known):
    from lib import e3_run

    e3_run.init(known)
    st = e3_run._STATE
    return list(st["qs"].keys()), st["skipped"], st["b"], st["E"]


def run(ctx: Ctx) -> int:
    known = sorted(ctx.known.keys())
    names, skipped, bindings, E = _names(known)
    # trusted-table validation (z3 terms vs Python reference implementations vs CPython operators)
    n_val, bad = E.validate_tables(ctx.pick(40, 400), seed=ctx.seed)
    ctx.add(Obligation("tables: z3 encodings agree with reference implementations on concrete operands", "concrete",
                       "confirmed" if not bad else "error", bounds={"cases": n_val}, detail={"mismatches": bad[:10]}))
    if bad:
        ctx.harness_errors.append("semantics tables disagree with their references: " + "; ".join(bad[:3]))
    # trusted-table validation, second leg: the HUGR-op table against an independent implementation of the same ops
    # (the selene emulator of the installed guppylang 1.0.4), and the E5 interpreter's op functions against the table
    from lib import emu_oracle

    ev = emu_oracle.validate(ctx.pick(12, 80), seed=ctx.seed)
    ctx.add(Obligation("tables: HUGR op semantics agree with the installed emulator on concrete operands", "concrete",
                       "error" if ev["mismatches"] else ("not_confirmed" if ev["error"] or not ev["cases"] else "confirmed"),
                       bounds={"cases": ev["cases"], "ops": ev["ops"], "left_out": "idivmod_u, ffloor, fceil, fabs, fpow (not executable on the installed emulator)"},
                       wall_s=ev["wall_s"], detail={"mismatches": ev["mismatches"][:10], "unmapped": ev["unmapped"], "error": ev["error"]}))
    if ev["mismatches"]:
        ctx.harness_errors.append("HUGR op table disagrees with the installed emulator: " + "; ".join(ev["mismatches"][:3]))
    n5, bad5 = emu_oracle.validate_e5_ops(ctx.pick(100, 1000), seed=ctx.seed)
    ctx.add(Obligation("tables: E5 interpreter op functions agree with the HUGR op table inside their claim", "concrete",
                       "confirmed" if not bad5 else "error", bounds={"cases": n5}, detail={"mismatches": bad5[:10]}))
    if bad5:
        ctx.harness_errors.append("E5 op functions disagree with the HUGR op table: " + "; ".join(bad5[:3]))
    t_bv, t_int = ctx.pick(25, 120), ctx.pick(30, 300)
    t_fp = ctx.pick(150, 900)
    from lib import e3_run

    results = {}
    ex = cf.ProcessPoolExecutor(max_workers=ctx.par, initializer=e3_run.init, initargs=(known,))
    try:
        futs = {}
        for n in names:
            if "@C04:float" in n:
                for seed in range(ctx.pick(4, 6)):  # portfolio over solver seeds: binary64 div+fma queries vary 10x in time
                    futs[ex.submit(e3_run.solve_named, n, t_fp, t_int, seed)] = n
            else:
                futs[ex.submit(e3_run.solve_named, n, t_bv, t_int)] = n
        pending = set(futs)
        while pending:
            done, pending = cf.wait(pending, return_when=cf.FIRST_COMPLETED)
            for f in done:
                n, r = futs[f], f.result()
                if n not in results or (results[n]["result"] != "sat" and r["result"] in ("sat", "unsat")):
                    results[n] = r
            # portfolio members still running for an already decided query are not waited for
            if pending and all(futs[f] in results and results[futs[f]]["result"] in ("sat", "unsat") for f in pending):
                break
    finally:
        for p in list(getattr(ex, "_processes", {}).values()):
            try:
                p.kill()
            except Exception:
                pass
        ex.shutdown(wait=False, cancel_futures=True)
    for n in names:
        r = results[n]
        role = f"finding:{r['region']}" if r.get("region") else "main"
        ob = Obligation(n, r["engine"], "not_confirmed", role=role, solver_s=r["solver_s"], wall_s=r["solver_s"],
                        bounds={"domain": "all 64-bit operands (BitVec 64 / Float64 / Bool) under the property's definedness conditions",
                                "excluded_known_regions": r.get("excluded", [])},
                        detail={"binding": r["desc"], "attempts": r["attempts"]})
        if r["result"] == "unsat":
            ob.verdict = "confirmed"
        elif r["result"] == "sat":
            rp = r["replay"]
            ob.detail["model"] = r["model"]
            ob.detail["replay"] = rp
            if not rp["reproduced"]:
                ob.verdict = "error"
                ctx.harness_errors.append(f"{n}: model {r['model']} does not reproduce concretely: {rp}")
            else:
                vals = r["model"]
                path = ctx.write_script(
                    f"C04_{'kf' if r.get('region') else 'cx'}_{n.replace('.', '_').replace('@', '_').replace(':', '_')}.py",
                    "#!/verif/.venv/bin/python\n# replay: evaluates the live binding of /repo on the solver's operands and compares with CPython\n"
                    f"import sys\nsys.path.insert(0, {VERIF_ROOT!r})\nfrom lib.e3_run import replay_main\n"
                    f"sys.exit(replay_main({n!r}, {vals!r}, {known!r}))\n")
                what = f"{n}{tuple(vals)}: Guppy ({r['desc']}) gives {rp['guppy']}, Python gives {rp['python']}"
                ctx.samples.append({"obligation": n, "operands": vals, "guppy": str(rp["guppy"]), "python": str(rp["python"])})
                if r.get("region") and r["region"] in ctx.known:
                    ob.verdict = "known_finding"
                    if not any(k["key"] == r["region"] for k in ctx.known_hits):
                        ctx.known_hit(r["region"], ctx.known[r["region"]].get("what", what), vals, path)
                else:
                    ob.verdict = "counterexample"
                    ctx.violation(what, path, r.get("region"))
        else:
            ob.verdict = "not_confirmed"
            ob.detail["reason"] = r.get("reason")
        ctx.add(ob)
    # the dispatch glue on the real code
    H = "harness/C04_dispatch.py"
    ctx.crosshair([Job(H, fn, timeout=ctx.pick(60, 200)) for fn in
                   ("h_binary_table", "h_unary_table", "h_synthesize_binary", "h_reversing_checker")])
    # builtins / constructors dispatch
    exp = {("builtin", "abs"): "__abs__", ("builtin", "divmod"): "__divmod__", ("builtin", "pow"): "__pow__",
           ("int", "__new__"): "__int__", ("nat", "__new__"): "__nat__", ("float", "__new__"): "__float__", ("bool", "__new__"): "__bool__"}
    wrong = [f"{k}: {bindings[k].kind}/{bindings[k].target}" for k, v in exp.items()
             if k not in bindings or bindings[k].kind != "dunder" or bindings[k].target != v]
    ctx.add(Obligation("builtins abs/divmod/pow/int()/nat()/float()/bool() dispatch to the matching dunder", "concrete",
                       "confirmed" if not wrong else "counterexample", detail={"wrong": wrong}))
    if wrong:
        p = ctx.write_script("C04_cx_dispatch.py", "#!/verif/.venv/bin/python\nimport sys\nsys.path.insert(0, '/verif')\nimport lib.repo_env\n"
                             "from lib import e3_num as E\nb = E.extract_bindings()\n"
                             f"exp = {exp!r}\nbad = [k for k, v in exp.items() if k not in b or b[k].target != v]\nprint(bad)\nsys.exit(1 if bad else 0)\n")
        ctx.violation("builtin dispatch: " + "; ".join(wrong), p)
    ctx.functions_encoded = [
        "guppylang/std/num.py, guppylang/std/bool.py: every dunder of int/nat/float/bool, read from the live definition objects "
        "(DEF_STORE.impls[...] -> RawCustomFunctionDef.call_compiler.op(...) / call_checker / @guppy body AST)",
        "std/_internal/util.py: int_op/float_op/bool_logic_op closures (called to obtain the op); std/_internal/checker.py: ReversingChecker.parse_name/synthesize, DunderChecker",
        "checker/expr_checker.py: binary_table, unary_table, ExprSynthesizer._synthesize_binary"]
    ctx.bounds = {"operands": "full 64-bit domain for every int/nat/bool obligation and for float + - * / neg abs comparisons conversions",
                  "int/nat true division": "operands within +-2^53 (exactly representable)",
                  "pow": "ipow/fpow uninterpreted on both sides (binding, operand order, negative-exponent panic are what is checked)",
                  "solver_timeouts_s": {"bv": t_bv, "int": t_int, "fp_finding": t_fp}}
    ctx.outside_claim = ["float // % divmod outside the searched disagreement region (binary64 division equivalence stalls z3/cvc5)",
                         "float ** and round, ceil/floor/trunc dunders (not in the property's operator list)",
                         "mixed-type operand pairs (they reach these bindings through coercions, decided under C16)",
                         "int/nat true division beyond +-2^53"] + skipped
    ctx.assumptions = ["HUGR op semantics table (transcribed from the HUGR spec; cross-checked z3 term vs Python reference on every run)",
                       "Python operator semantics table (cross-checked z3 term vs CPython on every run)",
                       "operands of equal Guppy type (coercions are C16)"]
    nq = len(names)
    return ctx.finish(
        level="model_checking",
        rule="one obligation per (type, dunder): satisfiable <=> some operand pair makes the HUGR semantics of the live binding differ from Python's result; "
             "distinct = distinct (type, dunder[, known region]); non-trivial = decided sat/unsat by the solver",
        explanation=f"{nq} SMT obligations generated from /repo's live binding tables (z3 BitVec 64 / Float64; LIA twin for the division family), "
                    "each decided for every operand value; sat models are re-evaluated concretely against CPython before being reported",
        trusted_base=["z3 5.1", "HUGR op semantics table", "Python semantics table", "import shim"],
    )
