from lib.core import Ctx, Job

STEP = "harness/C09_step.py"
SCHED = "harness/C09_sched.py"


def run(ctx: Ctx) -> int:
    jobs = []
    nns = ctx.pick((0, 1, 2), (0, 1, 2, 3))
    nv = 1
    for nn in nns:
        for self_loop in (0, 1):
            for dummy in (0, 1):
                for incl in (0, 1):
                    env = {"VERIF_C09_NN": nn, "VERIF_C09_SELF": self_loop, "VERIF_C09_DUMMY": dummy, "VERIF_C09_INCL": incl,
                           "VERIF_C09_NV": nv}
                    tag = f"nn={nn},self={self_loop},dummy={dummy},incl={incl}"
                    t = ctx.pick(150, 900)
                    jobs.append(Job(STEP, "h_liveness_step", timeout=t, name=f"liveness_step[{tag}]", env=env))
                    jobs.append(Job(STEP, "h_assignment_step", timeout=t, name=f"assignment_step[{tag}]", env=env))
    if not ctx.quick:
        for fn in ("h_liveness_step", "h_assignment_step"):
            jobs.append(Job(STEP, fn, timeout=1800, name=f"{fn}[two variables,nn=1,self=1,dummy=1,incl=1]",
                            env={"VERIF_C09_NN": 1, "VERIF_C09_SELF": 1, "VERIF_C09_DUMMY": 1, "VERIF_C09_INCL": 1, "VERIF_C09_NV": 2}))
    jobs.append(Job(STEP, "h_init", timeout=ctx.pick(120, 400)))
    jobs.append(Job(STEP, "h_lattice_live", timeout=ctx.pick(200, 900)))
    jobs.append(Job(STEP, "h_lattice_assign", timeout=ctx.pick(200, 900)))
    k, r = ctx.pick((4, 3), (5, 4))
    for p in range(6):
        for fn in ("h_schedule_bwd", "h_schedule_fwd"):
            jobs.append(Job(SCHED, fn, timeout=ctx.pick(150, 1500), name=f"{fn}[program={p},K={k},R={r}]",
                            env={"VERIF_C09_PROG": p, "VERIF_C09_K": k, "VERIF_C09_R": r}))
        jobs.append(Job(SCHED, "h_schedule_rev", timeout=100, name=f"h_schedule_rev[program={p}]", env={"VERIF_C09_PROG": p}))
    ctx.functions_encoded = [
        "cfg/analysis.py: ForwardAnalysis.run, BackwardAnalysis.run (loop bodies and initialisation sliced from the current source; queue.pop() made a parameter / symbolic choice), "
        "LivenessAnalysis.{eq,join,apply_bb,initial}, AssignmentAnalysis.{__init__,initial,join,apply_bb,run_unpacked}",
        "cfg/cfg.py: CFG.analyze; cfg/bb.py: BB, VariableStats, compute_variable_stats; cfg/builder.py: CFGBuilder (concrete, to produce the graphs of the schedule obligations)"]
    ctx.bounds = {"step": f"neighbours {list(nns)} x self-loop x dummy edge (in and out) x include_unreachable; one variable (separable frameworks)" + ("" if ctx.quick else "; one two-variable configuration"),
                  "schedule": f"6 programs (7-13 blocks); per program and per worklist (backward liveness / forward assignment) the first {k} picks are symbolic, each among the {r} lowest-indexed queued blocks, remaining picks lowest index; plus the two extreme concrete schedules"}
    ctx.outside_claim = ["blocks with more than %d ordinary neighbours" % max(nns), "termination is observed (400-pop cap), not proved",
                         "inout variables' initial liveness", "`maybe_ass_before_entry` different from `ass_before_entry` (nested functions)"]
    ctx.assumptions = ["textbook: for a distributive bit-vector framework the least/greatest solution of the equations equals the meet-over-paths solution",
                       "a one-step-inductive invariant covers worklist runs of any length and order"]
    ctx.crosshair(jobs)
    return ctx.finish(
        level="model_checking",
        rule="step obligations: case = one path = one valuation of (use/assign bits, current values, solution S, queue membership) for a fixed local structure; "
             "schedule obligations: case = one path = one worklist schedule prefix on a real CFG",
        explanation="CrossHair/z3 symbolic execution of the sliced real worklist loop body from an arbitrary state (any popped block), plus whole-graph runs under symbolic schedules compared with an independent path search",
        trusted_base=["CPython 3.12", "crosshair-tool 0.0.110", "z3 5.1", "AST slicing of lib/astx.py"],
    )
