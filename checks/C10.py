from lib.core import Ctx, Job

H = "harness/C10_setorder.py"
NAMES = ["maybe_undefined_siblings", "maybe_undefined_three", "closure_captures", "closure_captures_gate_off", "struct_fields_live", "nested_loops_break",
         "array_comp_captures", "generic_two", "rows_two_types", "rows_three_types", "maybe_undefined_two", "unused_two", "leak_in_branches", "accepted_many_live",
         "accepted_qubits", "unsolved_two", "use_after_move_two", "accepted_for"]


def run(ctx: Ctx) -> int:
    k = ctx.pick(4, 6)
    jobs = []
    for p, name in enumerate(NAMES):
        for grp in ("others", "worklists"):
            jobs.append(Job(H, "h_order", timeout=ctx.pick(150, 900), name=f"h_order[{name},{grp},K={k}]",
                            env={"VERIF_C10_PROG": p, "VERIF_C10_K": k, "VERIF_C10_SITES": grp}))
        jobs.append(Job(H, "h_order_policy", timeout=ctx.pick(150, 600), name=f"h_order_policy[{name},all sites]",
                        env={"VERIF_C10_PROG": p, "VERIF_C10_SITES": "all"}))
    ctx.functions_encoded = ["every module of guppylang_internals reached by check() on the corpus, recompiled from the current source with set iteration made explicit "
                             "(lib/setorder.py): cfg/analysis.py worklists, cfg/cfg.py update_reachable, checker/cfg_checker.py check_rows_match and every other for/comprehension/"
                             "iter/list/tuple/star/pop site (those that received a set with >= 2 elements are listed in the evidence as `set_sites_exercised`)"]
    ctx.bounds = {"programs": f"{len(NAMES)} (9 rejected with several simultaneous faults / candidate locations, 9 accepted with several live or captured variables)",
                  "order decisions": f"the first {k} decisions (element picked next out of a set with >= 2 elements) per site group are solver-chosen, later ones canonical",
                  "site groups": "worklists (analysis.py / cfg.py pops) | others",
                  "policies": "144 whole-run schedules per program: decision i picks element (a*i*i + b*i + c) mod n, a < 4, b < 6, c < 6 (solver-chosen)"}
    ctx.outside_claim = ["byte-identical HUGR (back end cannot run for /repo here)", "identity of heap addresses other than through set order (e.g. id()-keyed dicts)",
                         "sites the corpus never reaches with a set of two or more elements", "name counters of temporaries and object addresses in the dump (normalised away)",
                         "the order of variables inside a block signature (it does vary with the worklist order; compile_bb re-sorts every row by name, read in compiler/cfg_compiler.py, not executed)"]
    ctx.assumptions = ["set iteration order is the only channel through which hash seed / heap layout reach the front end"]
    ctx.crosshair(jobs)
    # which rewritten sites actually received a set with >= 2 elements (concrete run of each program, canonical order)
    import concurrent.futures as cf, json, os, subprocess
    from lib.core import PY, VERIF_ROOT

    def sites(p):
        env = dict(os.environ, VERIF_C10_PROG=str(p), PYTHONPATH=VERIF_ROOT, PYTHONDONTWRITEBYTECODE="1")
        r = subprocess.run([PY, os.path.join(VERIF_ROOT, H)], env=env, capture_output=True, text=True, timeout=300, cwd=VERIF_ROOT)
        for line in r.stdout.splitlines():
            if line.startswith("SITES "):
                return json.loads(line[6:])
        return {"program": NAMES[p], "error": (r.stdout + r.stderr)[-300:]}

    with cf.ThreadPoolExecutor(max_workers=ctx.par) as ex:
        reports = list(ex.map(sites, range(len(NAMES))))
    exercised = sorted({tuple(s) for r in reports for s in r.get("seen", [])})
    ctx.extra_cov = {"set_sites_exercised": [list(s) for s in exercised], "rewritten_sites_total": max((r.get("rewritten_sites", 0) for r in reports), default=0),
                     "program_outcomes": {r["program"]: r.get("outcome", r.get("error")) for r in reports}}
    return ctx.finish(
        level="model_checking",
        rule="case = one path = one vector of set-order decisions for one program; outcome (rendered diagnostic, or dump of the checked CFG with block signatures) compared with the canonical-order outcome",
        explanation="the real check() runs with the iteration order of every set inside guppylang_internals chosen by the solver (import-hook rewriting of the current source), outcome must not change",
        trusted_base=["CPython 3.12", "crosshair-tool 0.0.110", "z3 5.1", "import shim", "lib/setorder.py AST rewriting"],
        extra_cov=ctx.extra_cov,
    )
