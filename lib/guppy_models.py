"""E2: re-execute Guppy `std` source (which is Python syntax) from /repo under Python models of the
Guppy primitives.  The *statements executed are /repo's*, read from the current files at import
time; only the primitives they call are models.

Models (trusted base, DESIGN.md section 4.5):
  Option      some/nothing/is_some/is_nothing/unwrap/unwrap_nothing/swap/take  (in-place, as a borrowed place)
  array       fixed-length, bounds-checked (index outside [0, n) panics), iterable in index order
  panic       raises Panic
  structs     plain classes whose positional constructor follows the declared field order
"""
from __future__ import annotations

import ast
import os

from lib import repo_env


class Panic(Exception):
    pass


class ExitSig(Exception):
    pass


def panic(msg="", *args):
    raise Panic(msg)


class Opt:
    __slots__ = ("v",)

    def __init__(self, v=None):
        self.v = v  # None == nothing, else 1-tuple holding the payload

    def is_some(self):
        return self.v is not None

    def is_nothing(self):
        return self.v is None

    def unwrap(self):
        if self.v is None:
            raise Panic("Option.unwrap: value is `nothing`")
        # consumes the option *value*; on an array element of copyable type that value is a copy,
        # so the place itself is left alone (a move out of a subscript is rejected by the type checker)
        return self.v[0]

    def unwrap_nothing(self):
        if self.v is not None:
            raise Panic("Option.unwrap_nothing: value is `some`")

    def swap(self, other):
        old = Opt(self.v)
        self.v = other.v
        return old

    def take(self):
        return self.swap(Opt(None))

    def peek_copy(self):
        """unwrap of a *copy* (copyable payload): does not move the place."""
        if self.v is None:
            raise Panic("Option.unwrap: value is `nothing`")
        return self.v[0]


def some(x):
    return Opt((x,))


class _Nothing:
    def __call__(self):
        return Opt(None)

    def __getitem__(self, _):
        return self


nothing = _Nothing()


class Arr:
    """array[T, n] as a borrowed place: subscripting yields the element place itself."""

    def __init__(self, elems):
        self.e = list(elems)

    def __getitem__(self, i):
        if not (0 <= i < len(self.e)):
            raise Panic("Array index out of bounds")
        return self.e[i]

    def __setitem__(self, i, v):
        if not (0 <= i < len(self.e)):
            raise Panic("Array index out of bounds")
        self.e[i] = v

    def __iter__(self):
        return iter(list(self.e))

    def __len__(self):
        return len(self.e)


def array(*args):
    if len(args) == 1 and not isinstance(args[0], (int, Opt)) and hasattr(args[0], "__iter__"):
        return Arr(list(args[0]))
    return Arr(list(args))


def _strip(fn: ast.FunctionDef) -> ast.FunctionDef:
    args = [ast.arg(arg=a.arg) for a in fn.args.args]
    new = ast.FunctionDef(
        name=fn.name,
        args=ast.arguments(posonlyargs=[], args=args, kwonlyargs=[], kw_defaults=[], defaults=[]),
        body=fn.body, decorator_list=[], type_params=[],
    )
    return ast.copy_location(new, fn)


def parse(relpath: str) -> ast.Module:
    return ast.parse(repo_env.read(relpath), filename=repo_env.src(relpath))


def compile_function(fn: ast.FunctionDef, ns: dict, filename: str, transform=None):
    fn = _strip(fn)
    if transform is not None:
        fn = transform(fn)
    mod = ast.fix_missing_locations(ast.Module(body=[fn], type_ignores=[]))
    loc: dict = {}
    exec(compile(mod, filename, "exec"), ns, loc)  # noqa: S102
    return loc[fn.name]


def load_function(relpath: str, name: str, ns: dict, transform=None):
    tree = parse(relpath)
    for n in tree.body:
        if isinstance(n, ast.FunctionDef) and n.name == name:
            return compile_function(n, ns, repo_env.src(relpath), transform)
    raise LookupError(f"{name} not found in {relpath}")


def load_struct(relpath: str, clsname: str, ns: dict, transform=None):
    """Build a Python class from a @guppy.struct class: fields from the annotated assignments (in
    order), methods from the @guppy function bodies, compiled unchanged in namespace `ns`."""
    tree = parse(relpath)
    cdef = next((n for n in tree.body if isinstance(n, ast.ClassDef) and n.name == clsname), None)
    if cdef is None:
        raise LookupError(f"class {clsname} not found in {relpath}")
    fields = [s.target.id for s in cdef.body if isinstance(s, ast.AnnAssign) and isinstance(s.target, ast.Name)]

    def __init__(self, *vals):
        if len(vals) != len(fields):
            raise TypeError(f"{clsname} takes {len(fields)} fields")
        for f, v in zip(fields, vals):
            setattr(self, f, v)

    cls = type(clsname, (), {"__init__": __init__, "_fields": fields})
    ns[clsname] = cls
    for s in cdef.body:
        if isinstance(s, ast.FunctionDef):
            f = compile_function(s, ns, repo_env.src(relpath), transform)
            # dunder methods that builtins would call with type checks are exposed under a plain name too
            setattr(cls, s.name if s.name != "__len__" else "_guppy_len", f)
            if s.name == "__len__":
                cls.__len__ = f
    return cls


def glen(x):
    """Model of Guppy's len(): dispatch to the Guppy __len__ without CPython's int check."""
    f = getattr(type(x), "_guppy_len", None)
    if f is not None:
        return f(x)
    return len(x)


def base_ns(**extra) -> dict:
    ns = {
        "panic": panic, "some": some, "nothing": nothing, "array": array, "len": glen,
        "range": range, "Option": Opt, "T": object, "TCopyable": object, "int": int, "tuple": tuple,
        "__builtins__": __builtins__,
    }
    ns.update(extra)
    return ns


# ----------------------------------------------------------------------------- 64-bit arithmetic
M64 = 1 << 64
H63 = 1 << 63


def wrap_s64(v):
    """Two's-complement reduction of a mathematical integer into [-2^63, 2^63)."""
    return ((v + H63) % M64) - H63


class WrapArith(ast.NodeTransformer):
    """Rewrite `a + b`, `a - b`, `a * b`, `-a` into their 64-bit wrapping versions (Guppy `int` is i64:
    num.py binds these dunders to iadd/isub/imul/ineg, checked under C04)."""

    def visit_BinOp(self, node):
        self.generic_visit(node)
        if isinstance(node.op, (ast.Add, ast.Sub, ast.Mult)):
            return ast.copy_location(
                ast.Call(func=ast.Name(id="__wrap_s64", ctx=ast.Load()), args=[node], keywords=[]), node)
        return node

    def visit_UnaryOp(self, node):
        self.generic_visit(node)
        if isinstance(node.op, ast.USub) and not isinstance(node.operand, ast.Constant):
            return ast.copy_location(
                ast.Call(func=ast.Name(id="__wrap_s64", ctx=ast.Load()), args=[node], keywords=[]), node)
        return node


def wrap_transform(fn):
    return ast.fix_missing_locations(WrapArith().visit(fn))
