"""E4 — front-end artefacts of concrete programs vs. CPython, for all inputs / paths.

For a program given as source text:
  side A  CPython itself executes the source (`exec`), with the opaque functions bound to recording models;
  side B  the control-flow graph the *real* CFGBuilder produces for that source is walked block by block: the statements
          of a block are compiled unchanged and exec'd in an environment dict, the branch predicate is eval'd and
          successors[1] (true) / successors[0] (false) is followed — the documented edge convention of BB.
Both sides share the same symbolic inputs (arguments and the values the opaque functions return); they must agree on the
returned value, on the exception outcome (panic) and on the recorded event trace (callee, arguments) in order.
Loops are bounded by fuel on side B (an exhausted fuel = path outside the bound, counted, not passed)."""
from __future__ import annotations

import ast
import inspect
import textwrap

import lib.repo_env

lib.repo_env.shim()
import guppylang  # noqa: E402,F401
from guppylang_internals.ast_util import annotate_location  # noqa: E402
from guppylang_internals.cfg.builder import CFGBuilder  # noqa: E402
from guppylang_internals.checker.core import Globals  # noqa: E402
from guppylang_internals.nodes import IterNext, MakeIter, NestedFunctionDef  # noqa: E402

OPAQUE = ("f", "g", "h", "ff", "result", "emit")


class Panic(Exception):
    pass


class OutOfFuel(Exception):
    pass


class Rec:
    """Recording models of the opaque functions: the i-th call (in program order) returns rets[i]."""

    def __init__(self, rets):
        self.rets = rets
        self.trace: list = []

    def call(self, name):
        def fn(*args):
            i = len(self.trace)
            self.trace.append((name, args))
            if name in ("result", "emit"):
                return None
            if name == "ff":
                return 2.5       # an opaque float-valued call: its event matters, its value is a fixed binary64 number
            return self.rets[i] if i < len(self.rets) else 0

        fn.__name__ = name
        return fn

    def panic(self, *args):
        self.trace.append(("panic", args[:1]))
        raise Panic(args[0] if args else "")

    def env(self):
        e = {n: self.call(n) for n in OPAQUE}
        e["panic"] = self.panic
        # native readings of the array constructor and of the two array helpers of the corpus header (lib/e4_corpus.HEADER)
        import types as _types
        e["array"] = lambda *a: list(a[0]) if len(a) == 1 and isinstance(a[0], _types.GeneratorType) else list(a)
        e["mk3"] = lambda a: [e["f"](a), a + 1, a + 2]

        def bump(xs, i):
            xs[i] += 1
            return xs[i]

        e["bump"] = bump

        class Pair:      # native reading of the header's struct (the corpus never copies a struct value, so reference semantics is unobservable)
            def __init__(self, a, b):
                self.a, self.b = a, b

        e["Pair"] = Pair
        # generic helpers of the corpus header, parameters erased
        e["gfst"] = lambda a, b: a
        e["gswap"] = lambda t: (t[1], t[0])
        e["gpick"] = lambda c, a, b: a if c else b
        e["glen"] = lambda xs: len(xs) + len(xs)
        e["gsum"] = lambda xs: sum(xs) + len(xs) + len(xs)
        e["gtwice"] = lambda f1, v: f1(f1(v))
        return e


# --------------------------------------------------------------------------------- models for desugared iteration
class Opt:
    def __init__(self, v):
        self.v = v

    def is_some(self):
        return self.v is not None

    def unwrap(self):
        return self.v[0]

    def unwrap_nothing(self):
        assert self.v is None


class It:
    def __init__(self, it):
        self.it = it


def make_iter(v):
    return It(iter(v))


def iter_next(it):
    try:
        return Opt(((next(it.it), it),))
    except StopIteration:
        return Opt(None)


class _Lower(ast.NodeTransformer):
    def __init__(self, nested):
        self.nested = nested

    def visit_MakeIter(self, n):
        return ast.Call(func=ast.Name(id="__make_iter", ctx=ast.Load()), args=[self.visit(n.value)], keywords=[])

    def visit_IterNext(self, n):
        return ast.Call(func=ast.Name(id="__iter_next", ctx=ast.Load()), args=[self.visit(n.value)], keywords=[])

    def visit_NestedFunctionDef(self, n):
        self.nested.append(n)
        return ast.Assign(targets=[ast.Name(id=n.name, ctx=ast.Store())],
                          value=ast.Call(func=ast.Name(id="__mkfn", ctx=ast.Load()), args=[ast.Constant(len(self.nested) - 1)], keywords=[]))

    def generic_visit(self, n):
        n = super().generic_visit(n)
        if isinstance(getattr(n, "ctx", None), type):
            n.ctx = n.ctx()
        return n


def _store(t):
    if isinstance(t, (ast.Tuple, ast.List)):
        t.ctx = ast.Store()
        for e in t.elts:
            _store(e)
    elif isinstance(t, ast.Starred):
        t.ctx = ast.Store()
        _store(t.value)
    elif hasattr(t, "ctx"):
        t.ctx = ast.Store()


def fix_ctx(root):
    """The builder re-uses target nodes in load position (`a += e` -> `a = a + e`) and leaves ctx fields as it found
    them; CPython's compiler insists on consistent contexts.  Contexts carry no meaning beyond the position of the node,
    so they are recomputed from the positions."""
    for n in ast.walk(root):
        if hasattr(n, "ctx"):
            n.ctx = ast.Load()
    for n in ast.walk(root):
        if isinstance(n, ast.Assign):
            for t in n.targets:
                _store(t)
        elif isinstance(n, (ast.AugAssign, ast.AnnAssign, ast.NamedExpr, ast.For, ast.comprehension)):
            _store(n.target)
    return root


class Prog:
    """A program: its source, CPython's compilation of it and the real builder's CFG compiled block-wise."""

    def __init__(self, src: str, name: str | None = None):
        self.src = textwrap.dedent(src).strip() + "\n"
        tree = ast.parse(self.src)
        fn = tree.body[0]
        assert isinstance(fn, ast.FunctionDef)
        self.name = name or fn.name
        self.fname = fn.name
        self.args = [a.arg for a in fn.args.args]
        # side A: CPython's own reading of the source (type annotations and decorators are inert at run time)
        fn_plain = ast.parse(self.src).body[0]
        fn_plain.decorator_list = []
        self._native_code = compile(ast.fix_missing_locations(ast.Module(body=[fn_plain], type_ignores=[])), f"<{self.name}>", "exec")
        # side B: the real builder
        annotate_location(fn, self.src, f"<{self.name}>", 1)
        returns_none = fn.returns is None or (isinstance(fn.returns, ast.Constant) and fn.returns.value is None)
        self.cfg = CFGBuilder().build(fn.body, returns_none, Globals(inspect.currentframe()))
        self.nested: list = []
        try:
            self.code = self._compile_cfg(self.cfg)
        except TypeError as e:      # a desugared node CPython's compiler does not know (comprehensions): side B is unavailable for this program
            self.code, self.cfg_error = None, str(e)
        self._nested_code: dict = {}

    def _compile_cfg(self, cfg):
        code = {}
        for bb in cfg.bbs:
            stmts = []
            for s in bb.statements:
                s = _Lower(self.nested).visit(s)
                if isinstance(s, ast.Return):
                    s = ast.Assign(targets=[ast.Name(id="%ret", ctx=ast.Store())],
                                   value=s.value if s.value is not None else ast.Constant(None))
                stmts.append(s)
            mod = ast.fix_missing_locations(fix_ctx(ast.Module(body=stmts, type_ignores=[])))
            pred = None
            if bb.branch_pred is not None:
                pred = compile(ast.fix_missing_locations(fix_ctx(ast.Expression(body=_Lower(self.nested).visit(bb.branch_pred)))), "<bb>", "eval")
            code[bb] = (compile(mod, f"<bb{bb.idx}>", "exec"), pred)
        return code

    # ------------------------------------------------------------------ side A
    def run_native(self, args, rec: Rec, extra=None):
        ns = rec.env()
        ns.update(extra or {})
        exec(self._native_code, ns)  # noqa: S102
        return ns[self.fname](*args)

    # ------------------------------------------------------------------ side B
    def _walk(self, cfg, code, env, fuel):
        bb = cfg.entry_bb
        while bb is not cfg.exit_bb:
            fuel[0] -= 1
            if fuel[0] < 0:
                raise OutOfFuel()
            body, pred = code[bb]
            exec(body, env)  # noqa: S102
            if len(bb.successors) > 1:
                bb = bb.successors[1] if eval(pred, env) else bb.successors[0]  # noqa: S307
            elif len(bb.successors) == 1:
                bb = bb.successors[0]
            else:
                raise RuntimeError(f"block {bb.idx} has no successor and is not the exit")
        return env.get("%ret")

    def run_cfg(self, args, rec: Rec, fuel: int = 80, extra=None):
        if self.code is None:
            raise RuntimeError("the CFG of this program cannot be executed by CPython: " + self.cfg_error)
        env = rec.env()
        env.update(extra or {})
        env.update({"__make_iter": make_iter, "__iter_next": iter_next, "range": range, "abs": abs, "min": min, "max": max,
                    "int": int, "bool": bool, "len": len})
        f = [fuel]

        def mkfn(k):
            n = self.nested[k]
            if k not in self._nested_code:
                self._nested_code[k] = self._compile_cfg(n.cfg)
            params = [a.arg for a in n.args.args]

            def call(*a):
                e = {**env}   # (a dict display: CrossHair replaces dict(...) results by shells exec() rejects) non-capturing by construction of the corpus; globals (opaque functions) stay visible
                e.pop("%ret", None)
                e.update(zip(params, a))
                return self._walk(n.cfg, self._nested_code[k], e, f)
            return call

        env["__mkfn"] = mkfn
        env.update(zip(self.args, args))
        return self._walk(self.cfg, self.code, env, f)


def outcome(run, *a, **k):
    """('ret', value) | ('panic', msg) | ('unbound',) | ('fuel',)"""
    try:
        return ("ret", run(*a, **k))
    except Panic as p:
        return ("panic", str(p))
    except OutOfFuel:
        return ("fuel",)
    except (UnboundLocalError, NameError, KeyError):
        return ("unbound",)
    except Exception as e:  # noqa: BLE001   (Python-level failure of the program itself, e.g. AssertionError, TypeError)
        return ("raises", type(e).__name__)


def equivalent(prog: Prog, args, rets, fuel: int = 80, extra=None):
    """Returns (ok, detail).  Paths on which side B runs out of fuel are outside the bound: reported as ok with a note."""
    ra, rb = Rec(rets), Rec(rets)
    a = outcome(prog.run_native, args, ra, extra)
    b = outcome(prog.run_cfg, args, rb, fuel, extra)
    if b == ("fuel",):
        return True, "fuel"
    if a != b:
        return False, f"CPython: {a}, CFG: {b}; traces {ra.trace} vs {rb.trace}"
    if ra.trace != rb.trace:
        return False, f"event traces differ: CPython {ra.trace}, CFG {rb.trace}"
    return True, ""
