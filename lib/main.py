"""./check <ID> [--tier quick|thorough] [--replay <path>]"""
from __future__ import annotations

import argparse
import importlib
import os
import subprocess
import sys

from lib.core import EXIT_HARNESS, PY, VERIF_ROOT, Ctx


def main() -> int:
    ap = argparse.ArgumentParser()
    ap.add_argument("prop")
    ap.add_argument("--tier", default=os.environ.get("VERIF_TIER", "quick"), choices=["quick", "thorough"])
    ap.add_argument("--replay")
    a = ap.parse_args()
    if a.replay:
        return subprocess.run([PY, a.replay], cwd=VERIF_ROOT).returncode
    seed = int(os.environ.get("VERIF_SEED", "0") or 0)
    try:
        mod = importlib.import_module(f"checks.{a.prop}")
    except ModuleNotFoundError:
        print(f"no check for {a.prop}", file=sys.stderr)
        return EXIT_HARNESS
    ctx = Ctx(a.prop, a.tier, seed)
    try:
        return mod.run(ctx)
    finally:
        ctx.cleanup()


if __name__ == "__main__":
    sys.exit(main())
