"""Program corpora for the E4 checks (C03 classical control/data flow, C05 evaluation order, C32 syntax kinds).
Programs are Guppy functions `p(x: int, y: int) -> int` over int/bool values; `f g h` are declared opaque int->int
functions, `emit` a declared opaque int->None reporter (the stand-in for result-reporting), `panic` the builtin.
Generation is deterministic in (kind, n, seed)."""
from __future__ import annotations

import random

HEADER = '''\
from guppylang import guppy
from guppylang.std.builtins import array, panic
from collections.abc import Callable


@guppy.declare
def f(a: int) -> int: ...


@guppy.declare
def g(a: int) -> int: ...


@guppy.declare
def h(a: int) -> int: ...


@guppy.declare
def ff(a: int) -> float: ...


@guppy.declare
def emit(a: int) -> None: ...


@guppy.struct
class Pair:
    a: int
    b: int


@guppy
def mk3(a: int) -> array[int, 3]:
    return array(f(a), a + 1, a + 2)


@guppy
def bump(xs: array[int, 3], i: int) -> int:
    xs[i] += 1
    return xs[i]


# generic helpers (type parameters, a const parameter, a generic struct): CPython runs the same bodies with the parameters erased
TG = guppy.type_var("TG")
UG = guppy.type_var("UG")
NG = guppy.nat_var("NG")


@guppy
def gfst(a: TG, b: UG) -> TG:
    return a


@guppy
def gswap(t: tuple[TG, UG]) -> tuple[UG, TG]:
    a, b = t
    return b, a


@guppy
def gpick(c: bool, a: TG, b: TG) -> TG:
    if c:
        return a
    return gfst(b, a)


@guppy
def glen(xs: array[int, NG]) -> int:
    return len(xs) + int(NG)


@guppy
def gsum(xs: array[int, NG]) -> int:
    s = 0
    for v in xs.copy():
        s += v
    return s + glen(xs)


@guppy
def gtwice(f1: Callable[[TG], TG], v: TG) -> TG:
    return f1(f1(v))

'''


class Gen:
    def __init__(self, rng: random.Random, effects: float, depth: int):
        self.r = rng
        self.effects = effects        # probability of an opaque call where an int expression is wanted
        self.depth = depth
        self.fuelvars = 0

    # ------------------------------------------------------------------ expressions
    def int_atom(self, vars_):
        r = self.r.random()
        if r < 0.55 and vars_:
            return self.r.choice(vars_)
        return str(self.r.choice([0, 1, 2, 3, 5, -1, -2]))

    def int_expr(self, vars_, d):
        r = self.r.random()
        if d <= 0 or r < 0.25:
            return self.int_atom(vars_)
        if r < 0.25 + self.effects:
            return f"{self.r.choice('fgh')}({self.int_expr(vars_, d - 1)})"
        if r < 0.66:
            op = self.r.choice(["+", "-", "*", "+", "-"])
            return f"({self.int_expr(vars_, d - 1)} {op} {self.int_expr(vars_, d - 1)})"
        if r < 0.70:
            # partial but pure operators: reaching them with a zero divisor raises in Python (and panics in Guppy), which makes
            # evaluation order and short-circuiting observable without any opaque call
            op = self.r.choice(["//", "%"])
            return f"({self.int_atom(vars_)} {op} {self.int_atom(vars_)})"
        if r < 0.82:
            return f"({self.int_expr(vars_, d - 1)} if {self.bool_expr(vars_, d - 1)} else {self.int_expr(vars_, d - 1)})"
        if r < 0.88:
            return f"(-{self.int_expr(vars_, d - 1)})"
        if r < 0.94 and vars_:
            v = self.r.choice(["a", "b", "c"])   # never a loop counter: the loops of the corpus must stay bounded
            return f"({v} := {self.int_expr(vars_, d - 1)})"
        return self.int_atom(vars_)

    def bool_expr(self, vars_, d):
        r = self.r.random()
        if self.effects > 0.3 and r < 0.06:
            # mixed int / float comparison (the checker resolves one side through a reflected method)
            op = self.r.choice(["<", "<=", "==", "!=", ">", ">="])
            a, b = self.int_expr(vars_, 1), f"ff({self.int_atom(vars_)})"
            return f"{a} {op} {b}" if self.r.random() < 0.5 else f"{b} {op} {a}"
        if d <= 0 or r < 0.35:
            op = self.r.choice(["<", "<=", "==", "!=", ">", ">="])
            return f"{self.int_expr(vars_, d - 1)} {op} {self.int_expr(vars_, d - 1)}"
        if r < 0.50:
            return f"(not {self.bool_expr(vars_, d - 1)})"
        if r < 0.65:
            return f"({self.bool_expr(vars_, d - 1)} and {self.bool_expr(vars_, d - 1)})"
        if r < 0.80:
            return f"({self.bool_expr(vars_, d - 1)} or {self.bool_expr(vars_, d - 1)})"
        if r < 0.88:
            o1, o2 = self.r.choice(["<", "<=", "=="]), self.r.choice(["<", "<=", "!="])
            return f"{self.int_expr(vars_, d - 1)} {o1} {self.int_expr(vars_, d - 1)} {o2} {self.int_expr(vars_, d - 1)}"
        if r < 0.93:
            o1, o2, o3 = self.r.choice(["<", "<=", "=="]), self.r.choice(["<", "<=", "!="]), self.r.choice(["<", ">", "!="])
            return (f"{self.int_expr(vars_, d - 1)} {o1} {self.int_expr(vars_, d - 1)} {o2} {self.int_expr(vars_, d - 1)} "
                    f"{o3} {self.int_expr(vars_, d - 1)}")
        if r < 0.97:
            # a literal that decides the outcome next to an operand that still has to be evaluated
            lit, op = self.r.choice([("False", "and"), ("True", "or"), ("True", "and"), ("False", "or")])
            e = self.bool_expr(vars_, d - 1)
            return f"({e} {op} {lit})" if self.r.random() < 0.6 else f"({lit} {op} {e})"
        return self.r.choice(["True", "False"])

    # ------------------------------------------------------------------ statements
    def block(self, vars_, d, in_loop, ind):
        out = []
        n = self.r.randint(1, 3)
        for _ in range(n):
            lines, vars_, stop = self.stmt(vars_, d, in_loop, ind)
            out += lines
            if stop:
                if self.r.random() < 0.3:      # dead code after a jump
                    out.append(" " * ind + f"a = {self.int_atom(vars_)}")
                break
        return out, vars_

    def stmt(self, vars_, d, in_loop, ind):
        """-> (lines, vars defined afterwards, ends with a jump)"""
        p = " " * ind
        r = self.r.random()
        locals_ = ["a", "b", "c"]
        if d <= 0 or r < 0.30:
            v = self.r.choice(locals_)
            return [p + f"{v} = {self.int_expr(vars_, 2)}"], sorted(set(vars_) | {v}), False
        if r < 0.38:
            defined = [v for v in vars_ if v in locals_]
            if defined:
                v = self.r.choice(defined)
                return [p + f"{v} {self.r.choice(['+=', '-=', '*='])} {self.int_expr(vars_, 1)}"], vars_, False
        if r < 0.44:
            v1, v2 = self.r.sample(locals_, 2)
            return [p + f"{v1}, {v2} = {self.int_expr(vars_, 1)}, {self.int_expr(vars_, 1)}"], sorted(set(vars_) | {v1, v2}), False
        if r < 0.50:
            return [p + f"emit({self.int_expr(vars_, 1)})"], vars_, False
        if r < 0.68:
            cond = self.bool_expr(vars_, 2)
            body, v_then = self.block(vars_, d - 1, in_loop, ind + 4)
            lines = [p + f"if {cond}:"] + body
            v_after = set(v_then)
            if self.r.random() < 0.35:
                cond2 = self.bool_expr(vars_, 1)
                b2, v2 = self.block(vars_, d - 1, in_loop, ind + 4)
                lines += [p + f"elif {cond2}:"] + b2
                v_after &= set(v2)
            if self.r.random() < 0.6:
                b3, v3 = self.block(vars_, d - 1, in_loop, ind + 4)
                lines += [p + "else:"] + b3
                v_after &= set(v3)
            else:
                v_after &= set(vars_)
            return lines, sorted(v_after), False
        if r < 0.80:
            self.fuelvars += 1
            n = f"n{self.fuelvars}"
            k = self.r.randint(1, 3)
            cond = self.bool_expr(vars_, 1)
            body, _ = self.block(sorted(set(vars_) | {n}), d - 1, True, ind + 4)
            return [p + f"{n} = 0", p + f"while {n} < {k} and {cond}:", " " * (ind + 4) + f"{n} += 1"] + body, sorted(set(vars_) | {n}), False
        if r < 0.90:
            self.fuelvars += 1
            i = f"i{self.fuelvars}"
            k = self.r.choice(["2", "3", "x", "1"])
            body, _ = self.block(sorted(set(vars_) | {i}), d - 1, True, ind + 4)
            return [p + f"for {i} in range({k}):"] + body, vars_, False
        if r < 0.95 and in_loop:
            return [p + self.r.choice(["break", "continue"])], vars_, True
        return [p + f"return {self.int_expr(vars_, 2)}"], vars_, True


class ArrGen(Gen):
    """programs over an int array `xs` of length 3 next to the int variables: element reads, stores and augmented stores with
    computed (possibly effectful) indices `(e) % 3`, which Python and Guppy both keep inside [0, 3)"""

    def _idx(self, vars_, d, plain_store=False):
        r = self.r.random()
        if r < 0.3:
            return str(self.r.choice([0, 1, 2]))
        if plain_store:
            # the index of a plain subscript store is not handed to the expression builder by /repo (conditional expressions,
            # `and`/`or` and `:=` there end in an internal error: C02's subject), so it stays free of them
            a = self.int_atom(vars_)
            return self.r.choice([f"({a}) % 3", f"({self.r.choice('fgh')}({a})) % 3", f"({a} + {self.int_atom(vars_)}) % 3"])
        return f"({self.int_expr(vars_, d)}) % 3"

    def int_expr(self, vars_, d):
        if d > 0 and self.r.random() < 0.22:
            return f"xs[{self._idx(vars_, d - 1)}]"
        return super().int_expr(vars_, d)

    def stmt(self, vars_, d, in_loop, ind):
        r = self.r.random()
        p = " " * ind
        if r < 0.14:
            return [p + f"xs[{self._idx(vars_, 1, plain_store=True)}] = {self.int_expr(vars_, 2)}"], vars_, False
        if r < 0.26:
            return [p + f"xs[{self._idx(vars_, 1)}] {self.r.choice(['+=', '-=', '*='])} {self.int_expr(vars_, 1)}"], vars_, False
        if r < 0.30:
            return [p + f"emit(bump(xs, {self._idx(vars_, 1)}))"], vars_, False
        return super().stmt(vars_, d, in_loop, ind)


def gen_array_program(kind: str, idx: int, seed: int) -> str:
    rng = random.Random(f"arr-{kind}-{seed}-{idx}")
    g = ArrGen(rng, effects=0.12 if kind == "c03" else 0.45, depth=2)
    init = ", ".join(g.int_atom(["x", "y"]) for _ in range(3))
    body, vars_ = g.block(["x", "y"], g.depth, False, 4)
    lines = [f"def pa{idx}(x: int, y: int) -> int:", f"    xs = array({init})"] + body
    lines.append(f"    return {g.int_expr(vars_, 2)} + xs[0] + xs[1] * 10 + xs[2] * 100")
    return "\n".join(lines) + "\n"


def n_array(n: int) -> int:
    """how many array-flavoured programs accompany n generated ones"""
    return max(3, n // 12)


def gen_program(kind: str, idx: int, seed: int) -> str:
    rng = random.Random(f"{kind}-{seed}-{idx}")
    g = Gen(rng, effects=0.12 if kind == "c03" else 0.45, depth=3 if kind == "c03" else 2)
    body, vars_ = g.block(["x", "y"], g.depth, False, 4)
    lines = [f"def p{idx}(x: int, y: int) -> int:"] + body
    ret = g.int_expr(vars_, 2)
    lines.append(f"    return {ret}")
    return "\n".join(lines) + "\n"


C03_FIXED = [
    """
def n0(x: int, y: int) -> int:
    a = gfst(x, y > 0)
    b, c = gswap((x, y))
    d = gpick(x > y, b, c)
    e = gpick(y > 0, (a, 1), (d, 2))
    return a + b * 10 + c * 100 + d * 1000 + e[0] * 10000 + e[1] * 100000
""",
    """
def n1(x: int, y: int) -> int:
    xs = array(x, y, 3)
    ys = array(y, x)
    r = glen(xs) * 10 + glen(ys) + gsum(xs) * 100 + gsum(ys) * 1000
    def inc(t: int) -> int:
        return t + 3
    return r + gtwice(inc, y) * 10000
""",
    """
def s0(x: int, y: int) -> int:
    p = Pair(x, y)
    if x > y:
        r = p.b - p.a
    else:
        r = p.a - p.b
    i = 0
    acc = 0
    while i < 3:
        if i % 2 == 0:
            acc += p.b * 10 + p.a
        else:
            acc += p.a * 10 + p.b
        p = Pair(p.a + 1, p.b)
        i += 1
    return r * 1000 + acc
""",
    """
def s1(x: int, y: int) -> int:
    p = Pair(x, 2)
    q = Pair(y, x + 1)
    t = (p.a, q.b)
    if x < 0:
        q = Pair(p.b, q.b)
        p = Pair(p.a, t[1])
    elif y < 0:
        p, q = Pair(q.b, p.b), Pair(q.a, p.a)
    while p.a > 0 and q.b > p.a:
        p = Pair(p.a - 1, p.b)
        q = Pair(q.a, q.b - 2)
    return p.a + p.b * 10 + q.a * 100 + q.b * 1000 + t[0]
""",
    """
def q11(x: int, y: int) -> int:
    s = 0
    for i in range(f(0) % 7 - 3, g(0) % 9 - 4, h(0) % 3 + 1):
        emit(i)
        s = s * 3 + i
    for k in range(x, y % 7 - 3, -(h(1) % 3) - 1):
        emit(k)
    for j in range(g(1) % 4):
        s += j
    return s
""",
    """
def r0(x: int, y: int) -> int:
    xs = array(x, y, x + y)
    i = 0
    while i < 3:
        if xs[i] < 0:
            xs[i] = -xs[i]
        else:
            xs[i] += i
        i += 1
    t = len(xs)
    for v in xs:
        t = t * 7 + v
    return t
""",
    """
def r1(x: int, y: int) -> int:
    m = array(array(x, 1), array(y, 2))
    m[x % 2][y % 2] += 5
    a = m[1][1]
    m[1][1] = m[0][0]
    m[0][0] = a
    ys = mk3(y)
    return bump(ys, x % 3) + ys[x % 3] + m[0][0] + m[0][1] * 10 + m[1][0] * 100 + m[1][1] * 1000
""",
    """
def q9(x: int, y: int) -> int:
    n = 0
    if x:
        n += 1
    if not y:
        n += 10
    k = 0
    while x and k < 5:
        k += 1
        x = x - 1 if x > 0 else x + 1
        n += 100
    if x - y:
        n += 1000
    return n
""",
    """
def q10(x: int, y: int) -> int:
    # enumerate: x     (six float comparisons on the input: the solver enumerates x instead of carrying it through floating-point terms)
    t = 2.0
    r = 0
    if x <= t:
        r += 1
    if x >= t:
        r += 2
    if x < 2.5:
        r += 4
    if 1.5 * x == 3.0:
        r += 8
    if t > x:
        r += 16
    if x + 0.5 != t + 0.5:
        r += 32
    return r
""",
    """
def q7(x: int, y: int) -> int:
    s = 0
    for i in range(x, x + 3):
        emit(i)
    for j in range(x + 2, x - 2, -1):
        emit(j)
    for k in range(0, x, 2):
        s += k
    for m in range(3):
        s += m
    for w in range(x):
        s -= w
    return s
""",
    """
def q8(x: int, y: int) -> int:
    def clamp(v: int, lo: int, hi: int) -> int:
        if v < lo:
            return lo
        if v > hi:
            return hi
        return v
    t = (clamp(x, 0, 2), clamp(y, -5, 5))
    a, b = t
    ok = a <= b and not (a == 0 or b == 0)
    n = 0
    while n < 3 and ok:
        n += 1
        ok = n * a < b
    return a * 10 + b + n
""",
    """
def q6(x: int, y: int) -> int:
    if 0 < x < 10 // x < 5 != y:
        return 1
    if y != 0 and 100 % y == 1:
        return 2
    return 3 // (x - 9)
""",
    """
def q0(x: int, y: int) -> int:
    s = 0
    n = 0
    while n < 4 and s < x:
        n += 1
        if f(s) < y:
            s += 2
            continue
        elif s > 5 or not h(y) > 0:
            break
        s += 1
    return s if s > 0 else -s
""",
    """
def q1(x: int, y: int) -> int:
    s = 0
    i = -1
    for i in range(x):
        if i == y:
            continue
        for j in range(i):
            s += j
            if s > 7:
                break
        s += i
    return s + i
""",
    """
def q2(x: int, y: int) -> int:
    def sq(t: int) -> int:
        if t < 0:
            return -t * t
        return t * t
    a = sq(x)
    b = sq(y) if x != y else a
    a, b = b, a
    return a - b
""",
    """
def q3(x: int, y: int) -> int:
    t = (x, (y, x + y))
    a, (b, c) = t
    if (m := a + b) > c:
        emit(m)
        return m
    emit(c)
    return c
    emit(0)
""",
    """
def q4(x: int, y: int) -> int:
    n = 0
    r = 1
    while True:
        n += 1
        if n > 3:
            break
        if x < n:
            continue
        r *= 2
    else_ = r
    return else_ + n
""",
    """
def q5(x: int, y: int) -> int:
    z = 0
    if not (x < y and not y < 0 or x == 3):
        z = 1
    elif x <= y <= 10:
        z = 2
    else:
        z = 3
    return z
""",
]

C05_FIXED = [
    """
def a0(x: int, y: int) -> int:
    xs = array(f(1), g(2), h(3))
    xs[g(4) % 3] = f(5)
    t = xs[f(6) % 3] + xs[0] + len(xs)
    xs[h(7) % 3] += g(8)
    for v in xs:
        emit(v)
    return t
""",
    """
def a1(x: int, y: int) -> int:
    xs = array(10, 20, 30)
    t = bump(xs, f(1) % 3) + xs[g(2) % 3]
    i = 0
    while i < 3:
        xs[i] = xs[i] * 2 + h(i)
        i += 1
    emit(xs[x % 3])
    return t + xs[0] + xs[1] + xs[2]
""",
    """
def a2(x: int, y: int) -> int:
    t = array(10, 20, 30)[f(0) % 3]
    ys = mk3(g(1))
    emit(ys[h(2) % 3])
    u = ys[f(3) % 3] if y > 0 else ys[0] + g(4)
    return t + u
""",
    """
def a3(x: int, y: int) -> int:
    return mk3(x)[g(2) % 3] + h(1)
""",
    """
def a4(x: int, y: int) -> int:
    m = array(array(1, 2), array(3, 4))
    m[f(0) % 2][1] += h(2)
    m[1][g(3) % 2] -= f(4)
    t = m[x % 2][g(5) % 2]
    return t + m[0][0] + m[0][1] * 10 + m[1][0] * 100 + m[1][1] * 1000
""",
    """
def a5(x: int, y: int) -> int:
    m = array(array(1, 2), array(3, 4))
    return m[f(0) % 2][g(1) % 2]
""",
    """
def a6(x: int, y: int) -> int:
    m = array(array(1, 2), array(3, 4))
    m[f(0) % 2][g(1) % 2] = h(2)
    return m[0][0] + m[0][1] * 10 + m[1][0] * 100 + m[1][1] * 1000
""",
    """
def e12(x: int, y: int) -> int:
    a = f(1) + ff(2)
    b = ff(3) * g(4)
    c = f(5) < ff(6)
    d = h(7) - ff(8)
    e = ff(9) >= f(10)
    if c or e:
        emit(1)
    return 0
""",
    """
def e12b(x: int, y: int) -> int:
    a = f(1) + ff(2)
    b = ff(3) * g(4)
    d = h(7) - ff(8)
    e = ff(9) >= f(10)
    k = ff(11) < 3
    if e or k:
        emit(1)
    return 0
""",
    """
def e13(x: int, y: int) -> int:
    if f(1):
        emit(1)
    if not g(2):
        emit(2)
    n = 0
    while n < 2 and h(n):
        n += 1
    return n
""",
    """
def e9(x: int, y: int) -> int:
    if f(x) > 0 and False:
        emit(1)
    b = g(y) > 0 or True
    n = 0
    while n < 2 and not (h(n) > 0 or True):
        n += 1
    return 1 if b else 0
""",
    """
def e10(x: int, y: int) -> int:
    a = 0
    if f(1) > 0 and g(2) > 0 and False:
        a = 1
    if True or h(3) > 0:
        a += 2
    if False and f(4) > 0:
        a += 4
    return a
""",
    """
def e11(x: int, y: int) -> int:
    if 0 < x < 10 // x < 5:
        return 1
    if y != 0 and 100 % y == 1 or x == 2:
        return 2
    return 0
""",
    """
def e0(x: int, y: int) -> int:
    return f(1) + g(2) * h(3)
""",
    """
def e1(x: int, y: int) -> int:
    if f(x) < g(x) < h(y):
        return 1
    return 0
""",
    """
def e2(x: int, y: int) -> int:
    return f(1) + (g(2) if x > 0 else h(3))
""",
    """
def e3(x: int, y: int) -> int:
    if f(x) > 0 and g(y) > 0 or h(x) > 0:
        emit(1)
    return f(g(h(x)))
""",
    """
def e4(x: int, y: int) -> int:
    a = f(1) + (b := g(2)) + h(b)
    return a
""",
    """
def e5(x: int, y: int) -> int:
    emit(f(x))
    if x > 2:
        panic("stop")
    emit(g(y))
    return h(1)
""",
    """
def e6(x: int, y: int) -> int:
    t = (f(1), g(2), h(3))
    return t[0] - t[2]
""",
    """
def e7(x: int, y: int) -> int:
    return f(g(1) + h(2)) - (f(3) if g(4) > h(5) else f(6))
""",
    """
def e8(x: int, y: int) -> int:
    a = 0
    a += f(a) + (1 if g(a) > 0 or h(a) > 0 else 2)
    return a
""",
]


def corpus(kind: str, n: int, seed: int, region: str | None = None) -> list[str]:
    """`region=None`: n generated programs (plus the fixed ones) that lie outside every known-finding region;
    `region=<tag>`: up to n programs inside that region (finding probes)."""
    from lib.e4_region import tags

    fixed = C03_FIXED if kind == "c03" else C05_FIXED

    def wanted(src):
        t = tags(src)
        return (not t) if region is None else (region in t)

    progs = [s for s in fixed if wanted(s)]
    if region is None:
        # array-flavoured programs (their own generator and random streams, so the programs that follow are unchanged)
        j, want_arr = 0, n_array(n)
        while want_arr and j < 40 * n_array(n):
            src = gen_array_program(kind, j, seed)
            j += 1
            if wanted(src):
                progs.append(src)
                want_arr -= 1
    target = n + len(progs) if region is None else n
    seen = set()
    i = 0
    while len(progs) < target and i < 40 * n + 200:
        src = gen_program(kind, i, seed)
        i += 1
        body = src.split("\n", 1)[1]
        if body in seen:
            continue
        seen.add(body)
        if wanted(src):
            progs.append(src)
    return progs


def module_text(progs: list[str], header_extra: str = "") -> str:
    out = [HEADER + header_extra]
    names = []
    for src in progs:
        src = src.strip() + "\n"
        name = src.split("(")[0].split()[-1]
        names.append(name)
        out.append("@guppy\n" + src + "\n")
    out.append("PROGRAMS = [" + ", ".join(names) + "]\n")
    return "\n".join(out)
