"""C06 — path oracle for linearity: an independent, *dynamic* statement of "each non-copyable, non-droppable value is
consumed or returned exactly once on every control-flow path", executed on the program's source for one vector of branch
decisions, plus the generator of the core-fragment corpus.

The oracle interprets the Python AST of a corpus program directly (the fragment is small: allocation, borrowing and
consuming calls, moves, tuple packing / unpacking, struct construction and field access, if / while / break / continue /
return).  A place holds a linear value or is MOVED.  Faults:
  use-after-move      a place (or a part of it) is borrowed, consumed, moved or returned while it is MOVED
  leak-overwrite      a place that still holds a linear value is overwritten
  leak-exit           at a function exit an owned place still holds a linear value that is not the returned one
  borrowed-not-back   at a function exit a borrowed parameter is not fully present
  ownership           a borrowed parameter is moved, consumed or re-assigned as a whole (its parts may be moved out and put
                      back, which borrowed-not-back polices)
Conditions are calls of the opaque `cond()`: each is answered by the next entry of the choice vector, so every syntactic
path is feasible, which is the reading of "every control-flow path" the property uses."""
from __future__ import annotations

import ast
import random

HEADER = '''\
from guppylang import guppy
from guppylang.std.builtins import owned
from guppylang.std.quantum import qubit, h, measure, discard


@guppy.struct
class S:
    a: qubit
    b: qubit


@guppy.declare
def cond() -> bool: ...


@guppy.declare
def use2(x: qubit, y: qubit) -> None: ...


@guppy.declare
def eat2(x: qubit @ owned, y: qubit @ owned) -> None: ...


@guppy.declare
def eat_s(s: S @ owned) -> None: ...


@guppy.declare
def use_s(s: S) -> None: ...


@guppy.declare
def eat_t(t: tuple[qubit, qubit] @ owned) -> None: ...

'''

BORROW = {"h": 1, "use2": 2, "use_s": 1}
CONSUME = {"measure": 1, "discard": 1, "eat2": 2, "eat_s": 1, "eat_t": 1}
LINEARITY_ERRORS = {"AlreadyUsedError", "PlaceNotUsedError", "UnnamedExprNotUsedError", "UnnamedFieldNotUsedError", "UnnamedTupleNotUsedError",
                    "NotOwnedError", "BorrowShadowedError", "BorrowSubPlaceUsedError", "DropAfterCallError", "UnnamedSubscriptNotUsedError"}


class Fault(Exception):
    pass


class OutOfChoices(Exception):
    pass


class _Break(Exception):
    pass


class _Continue(Exception):
    pass


class _Return(Exception):
    pass


MOVED = "MOVED"


class Q:
    """a qubit value"""
    __slots__ = ()


class T:
    def __init__(self, elts):
        self.elts = list(elts)


class St:
    def __init__(self, a, b):
        self.f = {"a": a, "b": b}


def present(v) -> bool:
    """fully present: no part has been moved out"""
    if v is MOVED or v is None:
        return False
    if isinstance(v, T):
        return all(present(e) for e in v.elts)
    if isinstance(v, St):
        return all(present(e) for e in v.f.values())
    return True


def holds_linear(v) -> bool:
    """some part still holds a linear value"""
    if v is MOVED or v is None:
        return False
    if isinstance(v, T):
        return any(holds_linear(e) for e in v.elts)
    if isinstance(v, St):
        return any(holds_linear(e) for e in v.f.values())
    return True


class Oracle:
    def __init__(self, fn: ast.FunctionDef, choices):
        self.fn = fn
        self.choices = choices
        self.i = 0
        self.env: dict = {}
        self.borrowed = []
        for a in fn.args.args:
            ann = ast.unparse(a.annotation)
            val = St(Q(), Q()) if ann.startswith("S") else Q()
            self.env[a.arg] = val
            if "owned" not in ann:
                self.borrowed.append(a.arg)

    # ------------------------------------------------------------------ places
    def _get(self, e):
        if isinstance(e, ast.Name):
            if e.id not in self.env:
                raise Fault(f"use of unassigned {e.id}")
            return self.env[e.id]
        if isinstance(e, ast.Attribute):
            base = self._get(e.value)
            if base is MOVED or not isinstance(base, St):
                raise Fault("use-after-move")
            return base.f[e.attr]
        raise AssertionError(ast.dump(e))

    def _set(self, e, v, check_leak=True):
        if check_leak and isinstance(e, ast.Name) and e.id in self.borrowed:
            raise Fault("ownership: a borrowed parameter is re-assigned")
        if isinstance(e, ast.Name):
            old = self.env.get(e.id)
            if check_leak and holds_linear(old):
                raise Fault(f"leak-overwrite of {e.id}")
            self.env[e.id] = v
            return
        if isinstance(e, ast.Attribute):
            base = self._get(e.value)
            if base is MOVED or not isinstance(base, St):
                raise Fault("use-after-move")
            if check_leak and holds_linear(base.f[e.attr]):
                raise Fault(f"leak-overwrite of field {e.attr}")
            base.f[e.attr] = v
            return
        raise AssertionError(ast.dump(e))

    def _root(self, e):
        while isinstance(e, ast.Attribute):
            e = e.value
        return e.id

    def _take(self, e):
        """move the value out of a place expression"""
        if isinstance(e, ast.Name) and e.id in self.borrowed:
            # (parts of a borrowed struct may be moved out as long as they are put back before the exit)
            raise Fault("ownership: a borrowed parameter is moved or consumed")
        v = self._get(e)
        if not present(v):
            raise Fault("use-after-move")
        self._set(e, MOVED, check_leak=False)
        return v

    # ------------------------------------------------------------------ expressions
    def eval(self, e):
        """evaluates an expression of linear type to a value, consuming the places it reads"""
        if isinstance(e, (ast.Name, ast.Attribute)):
            return self._take(e)
        if isinstance(e, ast.Tuple):
            return T([self.eval(x) for x in e.elts])
        if isinstance(e, ast.Call):
            name = e.func.id
            if name == "qubit":
                return Q()
            if name == "S":
                a, b = (self.eval(x) for x in e.args)
                return St(a, b)
            self.call(e)
            return None
        raise AssertionError(ast.dump(e))

    def call(self, e: ast.Call):
        name = e.func.id
        if name == "cond":
            if self.i >= len(self.choices):
                raise OutOfChoices()
            c = self.choices[self.i]
            self.i += 1
            return c
        if name in BORROW:
            for a in e.args:
                if not present(self._get(a)):
                    raise Fault("use-after-move")
            # the same place lent twice to one call
            keys = [ast.unparse(a) for a in e.args]
            if len(set(keys)) != len(keys):
                raise Fault("place borrowed twice in one call")
            return None
        if name in CONSUME:
            for a in e.args:
                self.eval(a)
            return None
        raise AssertionError(name)

    # ------------------------------------------------------------------ statements
    def run(self):
        try:
            self.block(self.fn.body)
            self.exit(None)
        except _Return:
            pass
        return "ok"

    def exit(self, returned):
        for name, v in self.env.items():
            if name in self.borrowed:
                if not present(v):
                    raise Fault(f"borrowed-not-back {name}")
            elif holds_linear(v):
                raise Fault(f"leak-exit {name}")

    def block(self, stmts):
        for s in stmts:
            self.stmt(s)

    def stmt(self, s):
        if isinstance(s, ast.Assign):
            tgt = s.targets[0]
            if isinstance(tgt, ast.Tuple):
                v = self.eval(s.value)
                if not isinstance(v, T) or len(v.elts) != len(tgt.elts):
                    raise AssertionError("bad unpack")
                for t, x in zip(tgt.elts, v.elts):
                    self._set(t, x)
            else:
                v = self.eval(s.value)
                self._set(tgt, v)
        elif isinstance(s, ast.Expr):
            v = self.eval(s.value) if not isinstance(s.value, ast.Call) else self.call_or_value(s.value)
            if holds_linear(v):
                raise Fault("linear value dropped")
        elif isinstance(s, ast.If):
            if self.call(s.test):
                self.block(s.body)
            else:
                self.block(s.orelse)
        elif isinstance(s, ast.While):
            while self.call(s.test):
                try:
                    self.block(s.body)
                except _Break:
                    break
                except _Continue:
                    continue
        elif isinstance(s, ast.Break):
            raise _Break()
        elif isinstance(s, ast.Continue):
            raise _Continue()
        elif isinstance(s, ast.Return):
            v = self.eval(s.value) if s.value is not None else None
            self.exit(v)
            raise _Return()
        elif isinstance(s, ast.Pass):
            pass
        else:
            raise AssertionError(ast.dump(s))

    def call_or_value(self, e):
        if e.func.id in ("qubit", "S"):
            return self.eval(e)
        return self.call(e)


def run_oracle(fn: ast.FunctionDef, choices) -> str:
    """'ok' | 'fault: ...' | 'out-of-choices'"""
    try:
        return Oracle(fn, choices).run()
    except Fault as f:
        return "fault: " + str(f)
    except OutOfChoices:
        return "out-of-choices"


# ====================================================================================== corpus
class Gen:
    def __init__(self, rng, depth, sig):
        self.r, self.depth, self.sig = rng, depth, sig

    def places(self, st):
        """places that may hold a qubit right now (by the generator's own rough tracking; errors are welcome)"""
        out = [v for v in ("q", "r", "a", "b") if v in st]
        if "s" in st:
            out += ["s.a", "s.b"]
        return out

    def stmt(self, st, d, in_loop, ind):
        p = " " * ind
        r = self.r.random()
        pl = self.places(st)
        if d <= 0 or r < 0.50:
            k = self.r.random()
            if k < 0.14:
                # a fresh qubit into a local or (re-binding) into an owned parameter
                v = self.r.choice(["a", "b"] + [x for x in ("q", "r") if x in self.sig["init"] and x not in self.sig["borrowed"]])
                return [p + f"{v} = qubit()"], st | {v}
            if k < 0.30 and pl:
                return [p + f"h({self.r.choice(pl)})"], st
            if k < 0.48 and pl:
                x = self.r.choice(pl if self.r.random() < 0.12 else ([x for x in pl if x not in self.sig["borrowed"]] or pl))
                return [p + f"{self.r.choice(['measure', 'discard'])}({x})"], st - {x}
            if k < 0.58 and pl:
                x = self.r.choice(pl if self.r.random() < 0.12 else ([x for x in pl if x not in self.sig["borrowed"]] or pl))
                v = self.r.choice(["a", "b"])
                if v != x:
                    return [p + f"{v} = {x}"], (st - {x}) | {v}
            if k < 0.64 and len(pl) >= 2:
                x, y = self.r.sample(pl, 2)
                return [p + f"use2({x}, {y})"], st
            if k < 0.70 and {"a", "b"} <= st:
                return [p + "a, b = b, a"], st
            if k < 0.76 and {"a", "b"} <= st:
                if self.r.random() < 0.6:
                    return [p + "t = (a, b)", p + "a, b = t"], st
                return [p + "t = (a, b)", p + "eat_t(t)"], st - {"a", "b"}
            if k < 0.84 and {"a", "b"} <= st and ("s" not in st or self.r.random() < 0.25) and "s" not in self.sig["borrowed"]:
                return [p + "s = S(a, b)"], (st - {"a", "b"}) | {"s"}      # (sometimes over a struct that is still live)
            if k < 0.90 and "s" in st:
                return [p + self.r.choice(["eat_s(s)", "use_s(s)", "s.a = qubit()", "a = s.a", "discard(s.b)"])], st
            if k < 0.95 and len(pl) >= 2:
                cand = [x for x in pl if x not in self.sig["borrowed"]]
                if len(cand) >= 2:
                    x, y = self.r.sample(cand, 2)
                    return [p + f"eat2({x}, {y})"], st - {x, y}
            return [p + "pass"], st
        if r < 0.78:
            b1, s1 = self.block(st, d - 1, in_loop, ind + 4)
            lines = [p + "if cond():"] + b1
            if self.r.random() < 0.6:
                b2, s2 = self.block(st, d - 1, in_loop, ind + 4)
                lines += [p + "else:"] + b2
                return lines, s1 & s2
            return lines, s1 & st
        if r < 0.90:
            b1, _ = self.block(st, d - 1, True, ind + 4)
            return [p + "while cond():"] + b1, st
        if r < 0.95 and in_loop:
            return [p + self.r.choice(["break", "continue"])], st
        if self.sig["ret"] == "qubit":
            cand = [x for x in pl if x not in self.sig["borrowed"]]
            if cand:
                return [p + f"return {self.r.choice(cand)}"], st
        if self.sig["ret"] == "None":
            return [p + "return"], st
        return [p + "pass"], st

    def block(self, st, d, in_loop, ind):
        out = []
        for _ in range(self.r.randint(1, 3)):
            lines, st = self.stmt(st, d, in_loop, ind)
            out += lines
            if lines[-1].strip().startswith(("return", "break", "continue")):
                break
        return out, st


SIGS = [
    {"params": "q: qubit @ owned", "borrowed": [], "ret": "None", "init": {"q"}},
    {"params": "q: qubit @ owned, r: qubit", "borrowed": ["r"], "ret": "None", "init": {"q", "r"}},
    {"params": "q: qubit @ owned, r: qubit @ owned", "borrowed": [], "ret": "qubit", "init": {"q", "r"}},
    {"params": "r: qubit", "borrowed": ["r"], "ret": "None", "init": {"r"}},
    {"params": "s: S @ owned", "borrowed": [], "ret": "None", "init": {"s"}},
    {"params": "s: S", "borrowed": ["s"], "ret": "None", "init": {"s"}},
    {"params": "", "borrowed": [], "ret": "None", "init": set()},
]


def tidy_end(sig, st, rng):
    """a plausible epilogue: consume what the generator believes is still owned (so that many programs are accepted)"""
    lines = []
    owned_left = [x for x in ("q", "r", "a", "b") if x in st and x not in sig["borrowed"]]
    if "s" in st and "s" not in sig["borrowed"]:
        lines.append("    eat_s(s)")
    if sig["ret"] == "qubit":
        if owned_left:
            keep = owned_left.pop()
            lines += [f"    discard({x})" for x in owned_left]
            lines.append(f"    return {keep}")
        else:
            lines.append("    return qubit()")
    else:
        lines += [f"    discard({x})" for x in owned_left]
    return lines


FIXED = [
    "def k0(q: qubit @ owned) -> None:\n    if cond():\n        h(q)\n    measure(q)\n",
    "def k1(q: qubit @ owned) -> None:\n    if cond():\n        measure(q)\n",
    "def k2(q: qubit @ owned) -> None:\n    while cond():\n        measure(q)\n",
    "def k3() -> None:\n    q = qubit()\n    while cond():\n        measure(q)\n        q = qubit()\n    discard(q)\n",
    "def k4(r: qubit) -> None:\n    if cond():\n        h(r)\n    else:\n        h(r)\n        h(r)\n",
    "def k5(r: qubit) -> None:\n    if cond():\n        measure(r)\n",
    "def k6(q: qubit @ owned, r: qubit @ owned) -> qubit:\n    if cond():\n        discard(q)\n        return r\n    discard(r)\n    return q\n",
    "def k7(q: qubit @ owned) -> None:\n    a = q\n    h(q)\n    discard(a)\n",
    "def k8(s: S @ owned) -> None:\n    discard(s.a)\n    if cond():\n        s.a = qubit()\n        eat_s(s)\n    else:\n        discard(s.b)\n",
    "def k9(s: S @ owned) -> None:\n    discard(s.a)\n    use_s(s)\n    discard(s.b)\n",
    "def k10(q: qubit @ owned) -> None:\n    while cond():\n        if cond():\n            break\n        h(q)\n    discard(q)\n",
    "def k11(q: qubit @ owned) -> None:\n    while cond():\n        if cond():\n            discard(q)\n            break\n        h(q)\n",
    "def k12(q: qubit @ owned) -> None:\n    a = qubit()\n    a = q\n    discard(a)\n",
    "def k13(q: qubit @ owned, r: qubit) -> None:\n    use2(q, r)\n    use2(r, r)\n    discard(q)\n",
    "def k14(q: qubit @ owned) -> None:\n    b = qubit()\n    t = (q, b)\n    a, b = t\n    eat2(a, b)\n",
    "def k16(q: qubit @ owned) -> None:\n    discard(q)\n    if cond():\n        h(q)\n",
    "def k17(q: qubit @ owned) -> None:\n    discard(q)\n    if cond():\n        pass\n    else:\n        h(q)\n",
    "def k18(q: qubit @ owned) -> None:\n    discard(q)\n    while cond():\n        h(q)\n",
    "def k19(q: qubit @ owned) -> None:\n    if cond():\n        discard(q)\n    else:\n        pass\n    h(q)\n    discard(q)\n",
    "def k20(r: qubit) -> None:\n    a = r\n    discard(a)\n",
    "def k21(r: qubit) -> None:\n    a = r\n    r = a\n",
    "def k22(r: qubit) -> None:\n    discard(r)\n    r = qubit()\n",
    "def k23(s: S) -> None:\n    h(s.a)\n    use2(s.a, s.b)\n",
    "def k24(s: S) -> None:\n    a = s.a\n    s.a = a\n",
    "def k25(q: qubit @ owned, r: qubit) -> None:\n    if cond():\n        use2(q, r)\n    discard(q)\n    h(r)\n",
    "def k26(q: qubit @ owned) -> None:\n    while cond():\n        a = q\n        q = a\n    discard(q)\n",
    "def k27(q: qubit @ owned) -> None:\n    while cond():\n        a = q\n        if cond():\n            q = a\n        else:\n            discard(a)\n            break\n",
    "def k28(q: qubit @ owned) -> None:\n    if cond():\n        discard(q)\n        q = qubit()\n    else:\n        discard(q)\n",
    "def k29(q: qubit @ owned) -> None:\n    if cond():\n        discard(q)\n        q = qubit()\n        return\n    discard(q)\n",
    "def k30(s: S @ owned) -> None:\n    while cond():\n        discard(s.a)\n        s.a = qubit()\n    eat_s(s)\n",
    "def k31(s: S @ owned) -> None:\n    while cond():\n        discard(s.a)\n        s.a = qubit()\n        if cond():\n            discard(s.a)\n            s.a = qubit()\n            discard(s.b)\n            return\n    eat_s(s)\n",
    "def k32(q: qubit @ owned) -> None:\n    discard(q)\n    q = qubit()\n    discard(q)\n",
    "def k33(s: S @ owned) -> None:\n    s = S(qubit(), qubit())\n    eat_s(s)\n",
    "def k34() -> None:\n    t = (qubit(), qubit())\n    t = (qubit(), qubit())\n    eat_t(t)\n",
    "def k35(s: S @ owned) -> None:\n    discard(s.a)\n    s = S(qubit(), qubit())\n    eat_s(s)\n",
    "def k36(s: S @ owned) -> None:\n    eat_s(s)\n    s = S(qubit(), qubit())\n    eat_s(s)\n",
    "def k15(q: qubit @ owned) -> None:\n    while cond():\n        a = qubit()\n        if cond():\n            continue\n        discard(a)\n    discard(q)\n",
]


def gen_program(i, seed, depth):
    rng = random.Random(f"c06-{seed}-{i}")
    sig = rng.choice(SIGS)
    g = Gen(rng, depth, sig)
    body, st = g.block(set(sig["init"]), depth, False, 4)
    lines = [f"def p{i}({sig['params']}) -> {sig['ret']}:"] + body
    if not body[-1].startswith("    return"):   # unless the function body itself ends with a return
        lines += tidy_end(sig, st, rng) or []
    return "\n".join(lines) + "\n"


def corpus(n, seed, depth=2):
    progs, seen, i = list(FIXED), set(), 0
    while len(progs) < n + len(FIXED) and i < 30 * n + 100:
        src = gen_program(i, seed, depth)
        i += 1
        body = src.split("\n", 1)[1]
        if body in seen:
            continue
        seen.add(body)
        try:
            ast.parse(src)
        except SyntaxError:
            continue
        progs.append(src)
    return progs


def module_text(progs):
    out = [HEADER]
    names = []
    for src in progs:
        names.append(src.split("(")[0].split()[-1])
        out.append("@guppy\n" + src.strip() + "\n\n")
    out.append("PROGRAMS = [" + ", ".join(names) + "]\n")
    return "\n".join(out)


def n_conds(src) -> int:
    return src.count("cond()")
