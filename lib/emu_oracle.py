"""Validation of the trusted HUGR-op semantics tables (lib/e3_num.HUGR_PY, and through it HUGR_BV and lib/e5.OPS)
against an independent implementation of the same ops: the selene emulator shipped with the *installed* guppylang
(1.0.4, a different compiler version from /repo, the same HUGR op names).  The ops are reached through the dunders
the installed std binds to them and are fed operands that are not compile-time constants (lib/emu_side.py).

This is a concrete cross-check of a *trusted table*, not a verdict about /repo: a mismatch makes every E3/E5 verdict
that uses the table untrustworthy and is therefore a harness error (exit 3), never a VIOLATION."""
from __future__ import annotations

import json
import math
import os
import random
import shutil
import subprocess
import tempfile

from lib import e3_num as E

H, M = E.H, E.M
SIDE = os.path.join(os.path.dirname(os.path.abspath(__file__)), "emu_side.py")
INSTALLED_PY = "/venv/bin/python"

#: op short name -> (table key, operand types)
OPS = {}
for _n in ["iadd", "isub", "imul", "iand", "ior", "ixor", "ishl", "ishr", "ieq", "ine", "ilt_s", "ile_s", "igt_s", "ige_s",
           "idiv_s", "imod_s", "idivmod_s", "ipow"]:
    OPS[_n] = ("arithmetic.int." + _n, ["int", "int"])
for _n in ["ineg", "iabs", "inot", "is_to_u"]:
    OPS[_n] = ("arithmetic.int." + _n, ["int"])
# (idivmod_u is left out: the installed 1.0.4 binds it with two type arguments and its own HUGR validation rejects the program;
#  idiv_u and imod_u cover the same arithmetic)
for _n in ["ilt_u", "ile_u", "igt_u", "ige_u", "idiv_u", "imod_u"]:
    OPS[_n] = ("arithmetic.int." + _n, ["nat", "nat"])
OPS["iu_to_s"] = ("arithmetic.int.iu_to_s", ["nat"])
OPS["convert_s"] = ("arithmetic.conversions.convert_s", ["int"])
OPS["convert_u"] = ("arithmetic.conversions.convert_u", ["nat"])
OPS["trunc_s"] = ("arithmetic.conversions.trunc_s", ["float"])
OPS["trunc_u"] = ("arithmetic.conversions.trunc_u", ["float"])
for _n in ["fadd", "fsub", "fmul", "fdiv", "feq", "fne", "flt", "fle", "fgt", "fge"]:
    OPS[_n] = ("arithmetic.float." + _n, ["float", "float"])
# (ffloor / fceil / fabs are left out: the installed emulator's LLVM lowering has no implementation for them)
for _n in ["fneg"]:
    OPS[_n] = ("arithmetic.float." + _n, ["float"])


def _defined(key, vals, ts) -> bool:
    """inside the op's definedness region (outside it the emulator panics and the whole shot is lost)"""
    s = [E.s64(v) if t == "int" else v for v, t in zip(vals, ts)]
    if key.endswith(("idiv_s", "imod_s", "idivmod_s", "idiv_u", "imod_u", "idivmod_u")):
        return vals[1] != 0
    if key.endswith("iabs"):
        return s[0] != -H      # (|INT_MIN| does not fit: the spec's unsigned reading gives 2^63, the installed emulator saturates to 2^63 - 1; outside C04's region either way)
    if key.endswith("is_to_u"):
        return s[0] >= 0
    if key.endswith("iu_to_s"):
        return vals[0] < H
    if key.endswith("trunc_s"):
        return math.isfinite(vals[0]) and -(2.0 ** 63) <= vals[0] < 2.0 ** 63
    if key.endswith("trunc_u"):
        return math.isfinite(vals[0]) and 0.0 <= vals[0] < 2.0 ** 64
    if key.endswith("ipow"):
        return 0 <= vals[1] <= 70      # (the exponent is unsigned; huge exponents only cost time)
    if key.endswith(("ishl", "ishr")):
        return True
    return True


def _finite(vals, ts) -> bool:
    # operands are written as literals into a program: inf/nan are produced by the ops, not passed in
    return all(t != "float" or math.isfinite(v) for v, t in zip(vals, ts))


def gen_cases(n_per_op: int, seed: int):
    rng = random.Random(seed)
    cases, expected = [], {}
    cid = 0
    for short, (key, ts) in OPS.items():
        made = tries = 0
        while made < n_per_op and tries < n_per_op * 20:
            tries += 1
            vals = [E._rand_operand(t, rng) for t in ts]
            if key.endswith("ipow"):
                vals[1] = rng.choice([0, 1, 2, 3, 5, 31, 62, 63, 64, 65])
            if key.endswith(("ishl", "ishr")) and rng.random() < 0.7:
                vals[1] = rng.choice([0, 1, 2, 31, 62, 63, 64, 65, 127, M - 1, H])
            if not _finite(vals, ts) or not _defined(key, vals, ts):
                continue
            try:
                ref = E.HUGR_PY[key](*vals)
            except (ZeroDivisionError, OverflowError, ValueError):
                continue
            ref = list(ref) if isinstance(ref, tuple) else [ref]
            cases.append({"id": cid, "op": short, "args": [[t, (float(v).hex() if t == "float" else v)] for v, t in zip(vals, ts)]})
            expected[cid] = (key, vals, ref)
            cid += 1
            made += 1
    return cases, expected


def _same(ref, got) -> bool:
    if isinstance(ref, bool):
        return int(ref) == got
    if isinstance(ref, float):
        g = float.fromhex(got) if isinstance(got, str) else float(got)
        return (ref != ref and g != g) or (ref == g and math.copysign(1, ref) == math.copysign(1, g))
    return ref % M == got


def validate(n_per_op: int = 12, seed: int = 0, timeout: int = 900) -> dict:
    """-> {"cases": n, "ops": n, "mismatches": [...], "unmapped": [...], "error": str|None, "wall_s": float}"""
    import time

    t0 = time.time()
    if not os.path.exists(INSTALLED_PY):
        return {"cases": 0, "ops": 0, "mismatches": [], "unmapped": [], "error": "no installed interpreter", "wall_s": 0.0}
    cases, expected = gen_cases(n_per_op, seed)
    d = tempfile.mkdtemp(prefix="emu_oracle_")
    try:
        inp = os.path.join(d, "cases.json")
        json.dump(cases, open(inp, "w"))
        env = {k: v for k, v in os.environ.items() if k in ("PATH", "HOME", "LANG")}
        env["TMPDIR"] = d          # selene leaves a build directory per run in the temp dir: keep it inside the directory removed below
        p = subprocess.run([INSTALLED_PY, "-I", SIDE, inp], capture_output=True, text=True, timeout=timeout, env=env, cwd=d)
        if p.returncode != 0:
            return {"cases": 0, "ops": 0, "mismatches": [], "unmapped": [], "error": (p.stderr or p.stdout)[-600:], "wall_s": time.time() - t0}
        out = json.loads(p.stdout.strip().splitlines()[-1])
    except subprocess.TimeoutExpired:
        return {"cases": 0, "ops": 0, "mismatches": [], "unmapped": [], "error": "timeout", "wall_s": time.time() - t0}
    finally:
        shutil.rmtree(d, ignore_errors=True)
    bad, n, ops = [], 0, set()
    for cid_s, got in out["results"].items():
        key, vals, ref = expected[int(cid_s)]
        n += 1
        ops.add(key)
        if len(got) != len(ref) or not all(_same(r, g) for r, g in zip(ref, got)):
            bad.append(f"{key}{vals}: table {ref} vs emulator {got}")
    return {"cases": n, "ops": len(ops), "mismatches": bad, "unmapped": out["unmapped"], "error": None, "wall_s": round(time.time() - t0, 1)}


def validate_e5_ops(n_per_op: int = 200, seed: int = 0) -> tuple[int, list]:
    """lib/e5.OPS (Python-level semantics used by the checked-program interpreter) vs HUGR_PY on operands where the
    E5 function does not step outside its claim (overflow / known region / panic)."""
    from lib import e5

    rng = random.Random(seed)
    n, bad = 0, []
    for key, fn in e5.OPS.items():
        if key not in E.HUGR_PY or key.startswith("tket.bool"):
            continue
        ar = E.HUGR_BV[key][0]
        t = "float" if key.startswith("arithmetic.float") else "int"
        for _ in range(n_per_op):
            vals = [E._rand_operand(t, rng) for _ in range(ar)]
            if key.endswith("ipow"):
                vals[1] = rng.randrange(0, 70)
            if key.endswith("convert_u"):
                vals = [v % H for v in vals]       # E5 holds nat values as non-negative Python ints
            sv = [E.s64(v) if t == "int" else v for v in vals]
            try:
                e5.reset_acc()
                got = fn(*sv)
                e5.check_acc()       # (the overflow decision is deferred to the end of a run)
            except (e5.Overflow, e5.KnownRegion, e5.Panic, ZeroDivisionError, OverflowError):
                continue
            try:
                ref = E.HUGR_PY[key](*vals)
            except (ZeroDivisionError, OverflowError):
                bad.append(f"{key}{sv}: E5 gives {got}, table raises")
                continue
            n += 1
            ok = all(_same(r, (g % M if isinstance(g, int) and not isinstance(g, bool) else (g.hex() if isinstance(g, float) else int(g))))
                     for r, g in zip(ref if isinstance(ref, tuple) else (ref,), got if isinstance(got, tuple) else (got,)))
            if not ok:
                bad.append(f"{key}{sv}: E5 {got} vs table {ref}")
    return n, bad


if __name__ == "__main__":
    import sys

    r = validate(int(sys.argv[1]) if len(sys.argv) > 1 else 6)
    print(json.dumps(r, indent=1)[:3000])
    print(validate_e5_ops(50))
