"""E7 — interpreter over the HUGR that /repo's *back end* emits (classical fragment).

`CompilerContext(Module()).compile(ENGINE.get_checked(id))` runs /repo's whole lowering (compiler/cfg_compiler.py,
expr_compiler.py, stmt_compiler.py, func_compiler.py, core.py, the std compilers) and leaves a `hugr.Hugr` object; only the
packaging step after it (`ENGINE.compile`) is incompatible with the installed hugr.  This module gives that graph an executable
reading over Python values, so that the emitted program can be run side by side with CPython on symbolic inputs:
  * a dataflow region (FuncDefn / DataflowBlock / Case / DFG / TailLoop body) is evaluated by executing its children in a
    topological order of the value edges *and* the state-order edges; `unordered_effects()` reports regions in which two
    nodes that may have side effects (calls, panics, containers of those) are not ordered by these edges — there the trace of
    events would depend on the schedule;
  * CFG: blocks are executed from the entry block; the first output of a block is a Sum whose tag selects the successor and
    whose fields are prepended to the remaining outputs; Conditional: the tag of the first input selects the Case; TailLoop: tag 0
    continues, tag 1 breaks;
  * Call of a FuncDefn runs its body, Call of a FuncDecl is an opaque recorded event (lib.e4.Rec), LoadFunc / CallIndirect
    handle non-capturing function values;
  * extension ops: arithmetic.int / float / conversions and tket.bool through the same functions as E5 (lib/e5.OPS: 64-bit, paths
    with an overflow or inside a known C04 region are outside the claim), prelude MakeTuple / UnpackTuple / panic / exit / Noop,
    the array ops /repo emits for arrays of copyable elements and the borrow-array ops for arrays of arrays.
Anything else raises `Unsupported` (program outside the claim, reported)."""
from __future__ import annotations

import lib.repo_env

lib.repo_env.shim()
import guppylang  # noqa: E402,F401
from hugr import ops  # noqa: E402
from hugr import val as hv  # noqa: E402
from hugr.build.function import Module  # noqa: E402
from guppylang_internals.compiler.core import CompilerContext  # noqa: E402
from guppylang_internals.engine import ENGINE  # noqa: E402

from lib import e5  # noqa: E402
from lib.e5 import KnownRegion, OutOfFuel, Overflow, Panic, Unsupported  # noqa: E402,F401


class OutsideIndex(Exception):
    pass


def _realize(v):
    try:
        from crosshair.core import realize
        return realize(v)
    except Exception:  # noqa: BLE001   (no CrossHair in this interpreter: the value is concrete anyway)
        return v


class Sum:
    __slots__ = ("tag", "vals")

    def __init__(self, tag, vals):
        self.tag, self.vals = tag, tuple(vals)

    def __repr__(self):
        return f"Sum({self.tag}, {self.vals})"

    def __eq__(self, o):
        return isinstance(o, Sum) and self.tag == o.tag and self.vals == o.vals

    def __hash__(self):
        return hash((self.tag, self.vals))


class Fn:
    def __init__(self, node):
        self.node = node


class Arr:
    """array value: immutable tuple of elements, None marks a borrowed-out slot"""

    def __init__(self, vals):
        self.v = tuple(vals)

    def __eq__(self, o):
        return isinstance(o, Arr) and self.v == o.v

    def __hash__(self):
        return hash(self.v)

    def __repr__(self):
        return f"Arr{self.v}"


def lower(defn):
    """check + lower one @guppy definition with /repo's compiler; -> (hugr, FuncDefn node of the definition)"""
    defn.check()
    ctx = CompilerContext(Module())
    ctx.compile(ENGINE.get_checked(defn.id))
    h = ctx.module.hugr
    node = None
    for (d, _), c in ctx.compiled.items():
        if d == defn.id:
            node = c.hugr_node if hasattr(c, "hugr_node") else getattr(c, "func").parent_node
    if node is None:
        raise Unsupported("lowered definition not found")
    return h, node


def _opname(op) -> str:
    try:
        return op.op_def().qualified_name()
    except Exception:  # noqa: BLE001
        pass
    ext, nm = getattr(op, "extension", None), getattr(op, "op_name", None)
    if nm:
        return f"{ext}.{nm}" if ext else nm
    return type(op).__name__


def const_value(v):
    n = type(v).__name__
    if n == "IntVal":
        x = v.v % e5.M
        return x - e5.M if x >= e5.H else x
    if n == "UnsignedIntVal":
        return v.v
    if n == "FloatVal":
        return float(v.v)
    if n == "OpaqueBoolVal":
        return bool(v.v)
    if isinstance(v, hv.Tuple):
        return Sum(0, [const_value(x) for x in v.vals])
    if isinstance(v, hv.Sum):
        return Sum(v.tag, [const_value(x) for x in v.vals])
    if n in ("ErrorVal", "ConstString", "StringVal"):
        return getattr(v, "message", None) or getattr(v, "v", None) or getattr(v, "string", "")
    if n == "Function":
        raise Unsupported("constant function value")
    if n in ("ArrayVal", "ConstStdArray", "BorrowArrayVal") or hasattr(v, "v") and isinstance(getattr(v, "v", None), list):
        return Arr([const_value(x) for x in v.v])
    raise Unsupported(f"constant {n}")


class H:
    """static view of one Hugr: children, wiring, topological orders"""

    def __init__(self, hugr):
        self.h = hugr
        self._order = {}
        self._ins = {}
        self._eff = {}

    def op(self, n):
        return self.h[n].op

    def kids(self, n):
        return list(self.h.children(n))

    def inputs(self, n):
        """in-port offset -> (source node, out offset) for value ports (static function / constant edges included)"""
        if n not in self._ins:
            m = {}
            for p, outs in self.h.incoming_links(n):
                if p.offset >= 0 and outs:
                    m[p.offset] = (outs[0].node, outs[0].offset)
            self._ins[n] = m
        return self._ins[n]

    def order(self, region):
        """children of a dataflow region in a topological order of value + state-order edges among siblings (ties: node index)"""
        if region in self._order:
            return self._order[region]
        kids = self.kids(region)
        ks = set(kids)
        preds = {k: set() for k in kids}
        for k in kids:
            for p, outs in self.h.incoming_links(k):
                for o in outs:
                    if o.node in ks and o.node != k:
                        preds[k].add(o.node)
        done, out = set(), []
        pending = sorted(kids, key=lambda n: n.idx)
        while pending:
            progressed = False
            for k in list(pending):
                if preds[k] <= done:
                    out.append(k)
                    done.add(k)
                    pending.remove(k)
                    progressed = True
                    break       # restart: lowest index first among the ready nodes
            if not progressed:
                raise Unsupported("cyclic dataflow region")
        self._order[region] = (out, preds)
        return self._order[region]

    def effectful(self, n) -> bool:
        if n in self._eff:
            return self._eff[n]
        self._eff[n] = False      # (recursion guard for recursive functions)
        op = self.op(n)
        r = False
        if isinstance(op, (ops.Call, ops.CallIndirect)):
            r = True
        elif isinstance(op, (ops.ExtOp, ops.Custom)) and _opname(op) in ("prelude.panic", "prelude.exit"):
            r = True
        elif isinstance(op, (ops.CFG, ops.Conditional, ops.DFG, ops.TailLoop, ops.DataflowBlock, ops.Case)):
            r = any(self.effectful(c) for c in self.kids(n))
        self._eff[n] = r
        return r

    def unordered_effects(self, root) -> list:
        """pairs of possibly side-effecting sibling nodes of one dataflow region that no chain of value / order edges relates"""
        bad = []
        stack = [root]
        while stack:
            n = stack.pop()
            op = self.op(n)
            kids = self.kids(n)
            stack.extend(kids)
            if isinstance(op, (ops.FuncDefn, ops.DataflowBlock, ops.Case, ops.DFG, ops.TailLoop)):
                out, preds = self.order(n)
                eff = [k for k in out if self.effectful(k)]
                if len(eff) < 2:
                    continue
                # ancestors within the region
                anc = {}
                for k in out:
                    a = set()
                    for p in preds[k]:
                        a.add(p)
                        a |= anc[p]
                    anc[k] = a
                for i in range(len(eff)):
                    for j in range(i + 1, len(eff)):
                        if eff[i] not in anc[eff[j]] and eff[j] not in anc[eff[i]]:
                            bad.append((n.idx, eff[i].idx, eff[j].idx))
        return bad


class Interp:
    def __init__(self, view: H, rec, fuel=2000, strict_index=False):
        self.v, self.rec, self.fuel = view, rec, fuel
        # strict_index: array ops follow the HUGR array extensions on indices outside [0, n) (get -> None, set -> error variant,
        # borrow / return -> panic); otherwise such a path is outside the claim (OutsideIndex)
        self.strict_index = strict_index
        self.targs: list = []        # type arguments of the function instance being executed (for `load_nat` of a const parameter)

    def type_arg(self, a):
        n = type(a).__name__
        if n == "BoundedNatArg":
            return a.n
        if n == "VariableArg":
            if a.idx < len(self.targs):
                return self.type_arg(self.targs[a.idx])
            raise Unsupported("unbound type variable")
        raise Unsupported(f"type argument {n} used as a value")

    def tick(self):
        self.fuel -= 1
        if self.fuel < 0:
            raise OutOfFuel()

    # ------------------------------------------------------------------ regions
    def run_region(self, region, args):
        """execute the children of a dataflow region; -> values arriving at its Output node"""
        v = self.v
        env = {}
        out, _ = v.order(region)
        result = None
        for n in out:
            op = v.op(n)
            if isinstance(op, ops.Input):
                for i, a in enumerate(args):
                    env[(n, i)] = a
                continue
            if isinstance(op, (ops.Const, ops.FuncDefn, ops.FuncDecl)):
                continue
            ins_map = v.inputs(n)
            if isinstance(op, ops.Output):
                result = [env[ins_map[i]] for i in range(len(ins_map))]
                continue
            outs = self.exec_node(n, op, ins_map, env)
            for i, o in enumerate(outs):
                env[(n, i)] = o
        if result is None:
            raise Unsupported("region without Output")
        return result

    def _args(self, ins_map, env, k=None):
        return [env[ins_map[i]] for i in range(len(ins_map) if k is None else k)]

    # ------------------------------------------------------------------ nodes
    def exec_node(self, n, op, ins_map, env):
        v = self.v
        if isinstance(op, ops.LoadConst):
            src, _ = ins_map[0]
            return [const_value(v.op(src).val)]
        if isinstance(op, ops.Tag):
            return [Sum(op.tag, self._args(ins_map, env))]
        if isinstance(op, ops.MakeTuple) or type(op).__name__ == "MakeTuple":
            return [Sum(0, self._args(ins_map, env))]
        if isinstance(op, ops.UnpackTuple) or type(op).__name__ == "UnpackTuple":
            return list(self._args(ins_map, env)[0].vals)
        if isinstance(op, ops.Noop) or type(op).__name__ == "Noop":
            return self._args(ins_map, env)
        if isinstance(op, ops.Call):
            k = len(ins_map) - 1
            args = [env[ins_map[i]] for i in range(k)]
            target, _ = ins_map[k]
            return self.call(target, args, [self._resolve(t) for t in (getattr(op, "type_args", None) or [])])
        if isinstance(op, ops.LoadFunc):
            target, _ = ins_map[0]
            return [Fn(target)]
        if isinstance(op, ops.CallIndirect):
            args = self._args(ins_map, env)
            f = args[0]
            if not isinstance(f, Fn):
                raise Unsupported("indirect call of a non-function value")
            return self.call(f.node, args[1:])
        if isinstance(op, ops.Conditional):
            args = self._args(ins_map, env)
            s = args[0]
            case = v.kids(n)[s.tag]
            return self.run_region(case, list(s.vals) + args[1:])
        if isinstance(op, ops.CFG):
            return self.run_cfg(n, self._args(ins_map, env))
        if isinstance(op, ops.DFG):
            return self.run_region(n, self._args(ins_map, env))
        if isinstance(op, ops.TailLoop):
            args = self._args(ins_map, env)
            nin = len(op.just_inputs)
            cur, rest = args[:nin], args[nin:]
            while True:
                self.tick()
                res = self.run_region(n, cur + rest)
                s, rest = res[0], res[1:]
                if s.tag == 1:
                    return list(s.vals) + rest
                cur = list(s.vals)
        if isinstance(op, (ops.ExtOp, ops.Custom)) or hasattr(op, "op_def"):
            return self.ext_op(_opname(op), op, self._args(ins_map, env))
        raise Unsupported(f"node kind {type(op).__name__}")

    def _resolve(self, t):
        """a type argument of a call made inside a polymorphic function may itself be a variable of that function"""
        if type(t).__name__ == "VariableArg" and t.idx < len(self.targs):
            return self.targs[t.idx]
        return t

    def call(self, target, args, targs=()):
        self.tick()
        op = self.v.op(target)
        if isinstance(op, ops.FuncDecl):
            r = self.rec.call(op.f_name)(*args)
            return [] if r is None else [r]
        if isinstance(op, ops.FuncDefn):
            saved, self.targs = self.targs, list(targs)
            try:
                return self.run_region(target, args)
            finally:
                self.targs = saved
        raise Unsupported(f"call target {type(op).__name__}")

    def run_cfg(self, cfg, args):
        v = self.v
        blocks = v.kids(cfg)
        bb = blocks[0]
        while True:
            self.tick()
            op = v.op(bb)
            if isinstance(op, ops.ExitBlock):
                return args
            res = self.run_region(bb, args)
            s, rest = res[0], res[1:]
            succ = None
            for p, ins in v.h.outgoing_links(bb):
                if p.offset == s.tag and ins:
                    succ = ins[0].node
            if succ is None:
                raise Unsupported("block without the selected successor")
            bb, args = succ, list(s.vals) + rest

    # ------------------------------------------------------------------ extension ops
    def ext_op(self, name, op, a):
        if name in e5.OPS:
            r = e5.OPS[name](*a)
            if isinstance(r, bool) and name.startswith("arithmetic."):
                return [Sum(1 if r else 0, [])]          # comparisons give the HUGR Bool (a sum of two units), not tket.bool
            return list(r) if isinstance(r, tuple) else [r]
        if name == "prelude.load_nat":
            return [self.type_arg(op.args[0])]
        if name == "tket.bool.make_opaque":
            return [bool(a[0].tag)]
        if name == "tket.bool.read":
            return [Sum(1 if a[0] else 0, [])]
        if name in ("prelude.MakeTuple",):
            return [Sum(0, a)]
        if name in ("prelude.UnpackTuple",):
            return list(a[0].vals)
        if name in ("prelude.Noop",):
            return a
        if name == "tket.guppy.drop":
            return []
        if name == "prelude.MakeError":
            return [a[1] if len(a) > 1 else a[0]]
        if name in ("prelude.panic", "prelude.exit"):
            msg = a[0]
            self.rec.panic(msg if isinstance(msg, str) else str(msg))
        if name in ("arithmetic.conversions.trunc_s", "arithmetic.conversions.trunc_u"):
            f = a[0]
            import math
            if f != f or f in (float("inf"), float("-inf")) or not (-9.3e18 < f < 9.3e18) or (name.endswith("_u") and f < 0):
                raise Overflow()
            return [Sum(1, [e5._chk(math.trunc(f))])]
        if name in ("arithmetic.conversions.itousize", "arithmetic.conversions.ifromusize"):
            return [a[0]]       # (negative values become huge indices; the array ops treat them as out of range)
        # ---- arrays (value semantics; None = element currently borrowed out)
        short = name.split(".")[-1]
        if name.startswith(("collections.array.", "collections.borrow_arr.", "collections.value_array.")):
            return self.array_op(short, op, a)
        raise Unsupported(f"extension op {name}")

    def array_op(self, short, op, a):
        if short in ("get", "set", "borrow", "return") and len(a) >= 2:
            a = list(a)
            if 0 <= a[1] < len(a[0].v):
                a[1] = _realize(a[1])    # inside [0, n): one path per index value instead of symbolic slicing; outside, only "outside" matters
        if short == "new_array":
            return [Arr(a)]
        if short == "get":
            arr, i = a
            if not (0 <= i < len(arr.v)):
                if self.strict_index:
                    return [Sum(0, []), arr]
                raise OutsideIndex()
            return [Sum(1, [arr.v[i]]), arr]
        if short == "set":
            arr, i, x = a
            if not (0 <= i < len(arr.v)):
                if self.strict_index:
                    return [Sum(0, [x, arr])]
                raise OutsideIndex()
            return [Sum(1, [arr.v[i], Arr(arr.v[:i] + (x,) + arr.v[i + 1:])])]
        if short == "borrow":
            arr, i = a
            if not (0 <= i < len(arr.v)):
                if self.strict_index:
                    self.rec.panic("borrow: index out of bounds")
                raise OutsideIndex()
            if arr.v[i] is None:
                self.rec.panic("element already borrowed")
            return [Arr(arr.v[:i] + (None,) + arr.v[i + 1:]), arr.v[i]]
        if short == "return":
            arr, i, x = a
            if not (0 <= i < len(arr.v)):
                if self.strict_index:
                    self.rec.panic("return: index out of bounds")
                raise OutsideIndex()
            if arr.v[i] is not None:
                self.rec.panic("element was not borrowed")
            return [Arr(arr.v[:i] + (x,) + arr.v[i + 1:])]
        if short == "unpack":
            return list(a[0].v)
        if short in ("discard_all_borrowed",):
            return []
        if short in ("discard", "discard_empty"):
            return []
        if short in ("clone",):
            return [a[0], a[0]]
        if short in ("to_array", "from_array", "convert_to_std", "convert_from_std"):
            return [a[0]]
        if short == "new_all_borrowed":
            n = next((self.type_arg(t) for t in getattr(op, "args", []) if type(t).__name__ in ("BoundedNatArg", "VariableArg")), None)
            if n is None:
                raise Unsupported("new_all_borrowed without a size")
            return [Arr([None] * n)]
        if short == "pop_left":
            arr = a[0]
            return [Sum(1, [arr.v[0], Arr(arr.v[1:])])] if arr.v else [Sum(0, [])]
        if short == "pop_right":
            arr = a[0]
            return [Sum(1, [arr.v[-1], Arr(arr.v[:-1])])] if arr.v else [Sum(0, [])]
        raise Unsupported(f"array op {short}")


def run(view: H, fnode, args, rec, fuel=2000, strict_index=False):
    out = e5.guarded(lambda: Interp(view, rec, fuel, strict_index).run_region(fnode, list(args)))
    if len(out) == 0:
        return None
    if len(out) == 1:
        return out[0]
    return tuple(out)
