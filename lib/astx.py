"""AST utilities used by harness generators: fetch a function's source from /repo's current
tree, rewrite it (desugar `match`, slice loop bodies, make nondeterminism explicit) and
compile it in the defining module's own namespace.  The statements executed stay /repo's."""
from __future__ import annotations

import ast
import inspect
import textwrap
import types


def get_funcdef(obj) -> tuple[ast.FunctionDef, str, int]:
    """FunctionDef AST of a function/method object plus (filename, first line)."""
    fn = inspect.unwrap(obj)
    src = textwrap.dedent(inspect.getsource(fn))
    tree = ast.parse(src)
    fd = tree.body[0]
    assert isinstance(fd, ast.FunctionDef), type(fd)
    return fd, inspect.getsourcefile(fn) or "<src>", fn.__code__.co_firstlineno


def compile_funcdef(fd: ast.FunctionDef, globs: dict, filename: str = "<rewritten>", name: str | None = None):
    fd = ast.fix_missing_locations(fd)
    fd.decorator_list = []
    mod = ast.Module(body=[fd], type_ignores=[])
    loc: dict = {}
    exec(compile(mod, filename, "exec"), globs, loc)  # noqa: S102
    return loc[name or fd.name]


# ----------------------------------------------------------------------------- match desugaring
class _Fresh:
    def __init__(self):
        self.n = 0

    def __call__(self, base="_m"):
        self.n += 1
        return f"{base}{self.n}"


def _name(id_, store=False):
    return ast.Name(id=id_, ctx=ast.Store() if store else ast.Load())


def _bind(name: str, value: ast.expr) -> ast.expr:
    """Expression that binds `name := value` and is truthy."""
    return ast.Subscript(
        value=ast.Tuple(elts=[ast.NamedExpr(target=_name(name, True), value=value), ast.Constant(True)], ctx=ast.Load()),
        slice=ast.Constant(1), ctx=ast.Load())


def _and(parts: list[ast.expr]) -> ast.expr:
    parts = [p for p in parts if not (isinstance(p, ast.Constant) and p.value is True)]
    if not parts:
        return ast.Constant(True)
    if len(parts) == 1:
        return parts[0]
    return ast.BoolOp(op=ast.And(), values=parts)


def pattern_test(pat: ast.pattern, subj: ast.expr) -> ast.expr:
    """Boolean expression equivalent to `subj` matching `pat` (bindings done by walrus, left to right).
    Supports the pattern forms used in /repo: class patterns (builtin self-matching classes with one
    positional sub-pattern, keyword attribute patterns), singletons, values, or-patterns, as-patterns,
    wildcards and fixed-length sequence patterns."""
    if isinstance(pat, ast.MatchAs):
        parts = []
        if pat.pattern is not None:
            parts.append(pattern_test(pat.pattern, subj))
        if pat.name is not None:
            parts.append(_bind(pat.name, subj))
        return _and(parts)
    if isinstance(pat, ast.MatchSingleton):
        return ast.Compare(left=subj, ops=[ast.Is()], comparators=[ast.Constant(pat.value)])
    if isinstance(pat, ast.MatchValue):
        return ast.Compare(left=subj, ops=[ast.Eq()], comparators=[pat.value])
    if isinstance(pat, ast.MatchOr):
        return ast.BoolOp(op=ast.Or(), values=[pattern_test(p, subj) for p in pat.patterns])
    if isinstance(pat, ast.MatchClass):
        parts = [ast.Call(func=_name("isinstance"), args=[subj, pat.cls], keywords=[])]
        if pat.patterns:
            # only the self-matching builtins (bool, int, float, str, tuple, list, ...) take a positional
            # sub-pattern in /repo; it matches the subject itself
            if len(pat.patterns) != 1 or not isinstance(pat.cls, ast.Name) or pat.cls.id not in (
                    "bool", "bytearray", "bytes", "dict", "float", "frozenset", "int", "list", "set", "str", "tuple"):
                raise NotImplementedError("positional class sub-patterns on non-builtin classes: " + ast.unparse(pat))
            parts.append(pattern_test(pat.patterns[0], subj))
        for attr, sub in zip(pat.kwd_attrs, pat.kwd_patterns):
            parts.append(ast.Call(func=_name("hasattr"), args=[subj, ast.Constant(attr)], keywords=[]))
            parts.append(pattern_test(sub, ast.Attribute(value=subj, attr=attr, ctx=ast.Load())))
        return _and(parts)
    if isinstance(pat, ast.MatchSequence):
        if any(isinstance(p, ast.MatchStar) for p in pat.patterns):
            raise NotImplementedError("starred sequence patterns")
        n = len(pat.patterns)
        parts = [
            ast.Call(func=_name("isinstance"), args=[subj, ast.Tuple(elts=[_name("tuple"), _name("list")], ctx=ast.Load())], keywords=[]),
            ast.Compare(left=ast.Call(func=_name("len"), args=[subj], keywords=[]), ops=[ast.Eq()], comparators=[ast.Constant(n)]),
        ]
        for i, p in enumerate(pat.patterns):
            parts.append(pattern_test(p, ast.Subscript(value=subj, slice=ast.Constant(i), ctx=ast.Load())))
        return _and(parts)
    raise NotImplementedError(type(pat).__name__)


class MatchDesugar(ast.NodeTransformer):
    """`match` -> chain of `if`s with the same first-match-wins, guard-falls-through semantics."""

    def __init__(self):
        self.fresh = _Fresh()

    def visit_Match(self, node: ast.Match):
        self.generic_visit(node)
        subj = self.fresh("_subj")
        done = self.fresh("_done")
        out: list[ast.stmt] = [
            ast.Assign(targets=[_name(subj, True)], value=node.subject),
            ast.Assign(targets=[_name(done, True)], value=ast.Constant(False)),
        ]
        for case in node.cases:
            test = [ast.UnaryOp(op=ast.Not(), operand=_name(done)), pattern_test(case.pattern, _name(subj))]
            if case.guard is not None:
                test.append(case.guard)
            body = [ast.Assign(targets=[_name(done, True)], value=ast.Constant(True)), *case.body]
            out.append(ast.If(test=_and(test), body=body, orelse=[]))
        return [ast.copy_location(s, node) for s in out]


def desugar_match(fd: ast.FunctionDef) -> ast.FunctionDef:
    return ast.fix_missing_locations(MatchDesugar().visit(fd))


def rebuild(obj, transform, globs: dict | None = None, name: str | None = None):
    """Fetch `obj`'s current source, apply `transform` to its FunctionDef, compile it in the defining
    module's globals (or `globs`)."""
    fd, filename, _ = get_funcdef(obj)
    fd = transform(fd)
    fn = inspect.unwrap(obj)
    g = globs if globs is not None else fn.__globals__
    return compile_funcdef(fd, g, filename, name)


def has_match(obj) -> bool:
    fd, _, _ = get_funcdef(obj)
    return any(isinstance(n, ast.Match) for n in ast.walk(fd))
