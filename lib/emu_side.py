"""Runs under /venv/bin/python with the *installed* guppylang (1.0.4) — never with /repo on the path.

Input (argv[1], JSON): [{"id": int, "op": "iadd", "ext": "int"|"float"|"conv", "args": [[type, value], ...]}, ...]
  type in int | nat | float; int and nat values are unsigned 64-bit patterns, floats are given as hex strings.
For every case the HUGR op is reached through the dunder that the installed std/num.py binds to it
(`@hugr_op(int_op("iadd"))`, found by parsing that file), applied to operands that are not compile-time constants
(each has a measurement-dependent 0 added / 1.0 multiplied, so no constant folder sees them), executed on the selene
emulator, and the result is reported back.
Output (stdout, last line, JSON): {"results": {id: [values...]}, "unmapped": [op names], "panicked": [ids]}
  int/nat results are unsigned patterns (nat results are reported as (r >> 1, r & 1) and re-assembled here),
  floats are hex strings, bools are 0/1."""
import ast
import json
import os
import sys
import tempfile

H, M = 1 << 63, 1 << 64


def bindings():
    import guppylang.std.num as num
    tree = ast.parse(open(num.__file__).read())
    out = {}
    for cls in tree.body:
        if not isinstance(cls, ast.ClassDef) or cls.name not in ("int", "nat", "float"):
            continue
        for fn in cls.body:
            if not isinstance(fn, ast.FunctionDef):
                continue
            for d in fn.decorator_list:
                for c in ast.walk(d):
                    if isinstance(c, ast.Call) and isinstance(c.func, ast.Name) and c.func.id in ("int_op", "float_op") \
                            and c.args and isinstance(c.args[0], ast.Constant):
                        params = [ast.unparse(a.annotation) for a in fn.args.args]
                        out.setdefault(c.args[0].value, []).append((cls.name, fn.name, params, ast.unparse(fn.returns)))
    return out


def lit(t, v):
    if t == "int":
        s = v - M if v >= H else v
        return f"(comptime({s}) + z)"
    if t == "nat":
        if v < H:
            return f"(nat(comptime({v})) + zn)"
        rest = v - (H - 1)
        if rest < H:
            return f"((zn + nat(comptime({H - 1}))) + nat(comptime({rest})))"
        return f"(((zn + nat(comptime({H - 1}))) + nat(comptime({H - 1}))) + nat(comptime({rest - (H - 1)})))"
    if t == "float":
        f = float.fromhex(v)
        if f == 0.0 and str(f).startswith("-"):
            return "(-(comptime(0.0) * one))"      # (a constant -0.0 loses its sign on the way into the installed emulator)
        return f"(comptime({float.fromhex(v)!r}) * one)"
    raise ValueError(t)


def emit(tag, ty, expr, lines, shape):
    ty = ty.strip()
    if ty.startswith("tuple["):
        parts = [p.strip() for p in ty[6:-1].split(",")]
        names = [f"t{tag}_{i}" for i in range(len(parts))]
        lines.append(f"    {', '.join(names)} = {expr}")
        for n, p in zip(names, parts):
            emit(tag, p, n, lines, shape)
        return
    if ty == "nat":
        lines.append(f"    n{tag} = {expr}")
        lines.append(f"    result('c{tag}', int(n{tag} >> nat(1)))")
        lines.append(f"    result('c{tag}', int(n{tag} & nat(1)))")
        shape.append("nat")
    elif ty in ("int", "float", "bool"):
        lines.append(f"    result('c{tag}', {expr})")
        shape.append(ty)
    else:
        raise ValueError(ty)


def main():
    cases = json.load(open(sys.argv[1]))
    b = bindings()
    unmapped, shapes, chunks, cur = set(), {}, [], []
    for c in cases:
        cands = b.get(c["op"], [])
        want = [t for t, _ in c["args"]]
        pick = next((x for x in cands if x[2] == want and not (x[1].startswith("__r") and x[1] not in ("__rshift__", "__round__"))), None)
        if pick is None:
            unmapped.add(c["op"] + str(want))
            continue
        cls, dunder, _, ret = pick
        args = [lit(t, v) for t, v in c["args"]]
        expr = f"{args[0]}.{dunder}({', '.join(args[1:])})"
        shape: list = []
        lines: list = []
        emit(str(c["id"]), ret, expr, lines, shape)
        shapes[c["id"]] = shape
        cur.append((c["id"], lines))
        if len(cur) >= 60:
            chunks.append(cur)
            cur = []
    if cur:
        chunks.append(cur)
    src = ["from guppylang import guppy", "from guppylang.std.builtins import result, nat, comptime",
           "from guppylang.std.quantum import qubit, measure", ""]
    for k, ch in enumerate(chunks):
        src += ["@guppy", f"def chunk{k}(z: int, zn: nat, one: float) -> None:"]
        for _, lines in ch:
            src += lines
        src.append("")
    src += ["@guppy", "def main() -> None:", "    m = measure(qubit())", "    z = 1 if m else 0", "    zn = nat(z)", "    one = 0.0 if m else 1.0"]
    src += [f"    chunk{k}(z, zn, one)" for k in range(len(chunks))]
    src.append("")
    d = tempfile.mkdtemp(prefix="emu_side_")
    path = os.path.join(d, "emu_prog.py")
    open(path, "w").write("\n".join(src))
    import importlib.util
    spec = importlib.util.spec_from_file_location("emu_prog", path)
    mod = importlib.util.module_from_spec(spec)
    sys.modules["emu_prog"] = mod
    spec.loader.exec_module(mod)
    shots = mod.main.emulator(n_qubits=1).run()
    entries = list(list(shots.results)[0].entries)
    got: dict = {}
    for tag, v in entries:
        got.setdefault(int(tag[1:]), []).append(v)
    results = {}
    for cid, shape in shapes.items():
        vals, out, i = got.get(cid, []), [], 0
        for s in shape:
            if s == "nat":
                out.append(((vals[i] % M) << 1 | vals[i + 1]) % M)
                i += 2
            elif s == "int":
                out.append(vals[i] % M)
                i += 1
            elif s == "float":
                out.append(float(vals[i]).hex())
                i += 1
            else:
                out.append(int(bool(vals[i])))
                i += 1
        results[cid] = out
    import shutil
    shutil.rmtree(d, ignore_errors=True)
    print(json.dumps({"results": results, "unmapped": sorted(unmapped), "n_chunks": len(chunks)}))


if __name__ == "__main__":
    main()
