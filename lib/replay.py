"""Native (no CrossHair) replay of a counterexample against the real code.

A replay file is a small runnable script that calls `run_call(harness_path, call_expr)`.
Exit status of a replay: 1 = the violation reproduces, 0 = it does not, 2 = inconclusive (a bound was
reached), 3 = the replay itself is broken.
"""
from __future__ import annotations

import os
import sys
import traceback

VERIF_ROOT = os.path.dirname(os.path.dirname(os.path.abspath(__file__)))


def run_call(harness_path: str, call_expr: str, verbose: bool = True) -> int:
    if VERIF_ROOT not in sys.path:
        sys.path.insert(0, VERIF_ROOT)
    try:
        import lib.repo_env  # noqa: F401
        from lib.xh_worker import load_module

        if not os.path.isabs(harness_path):
            harness_path = os.path.join(VERIF_ROOT, harness_path)
        mod = load_module(harness_path)
    except BaseException:  # noqa: BLE001
        traceback.print_exc()
        return 3
    ns = dict(vars(mod))
    ns.setdefault("float", float)
    ns.setdefault("nan", float("nan"))
    ns.setdefault("inf", float("inf"))
    try:
        res = eval(call_expr, ns)  # noqa: S307
    except Exception as e:  # noqa: BLE001
        if verbose:
            print(f"REPRODUCED: {call_expr} raised {type(e).__name__}: {e}")
        return 1
    if isinstance(res, str) and res == "inconclusive":
        if verbose:
            detail = getattr(mod, "LAST_DETAIL", None)
            print(f"inconclusive: {call_expr}" + (f"  [{detail}]" if detail else ""))
        return 2
    if not res:
        if verbose:
            detail = getattr(mod, "LAST_DETAIL", None)
            print(f"REPRODUCED: {call_expr} returned {res!r}" + (f"  [{detail}]" if detail else ""))
        return 1
    if verbose:
        print(f"not reproduced: {call_expr} returned {res!r}")
    return 0


def write_replay(path: str, prop: str, harness_path: str, call_expr: str, note: str = "", env: dict | None = None) -> str:
    os.makedirs(os.path.dirname(path), exist_ok=True)
    rel = os.path.relpath(harness_path, VERIF_ROOT)
    with open(path, "w") as f:
        f.write(
            "#!/verif/.venv/bin/python\n"
            f"# replay of a counterexample for property {prop}\n"
            f"# {note}\n"
            "# run: /verif/.venv/bin/python <this file>   (exit 1 = violation reproduces on the real code)\n"
            "import os, sys\n"
            f"os.environ.update({ {k: str(v) for k, v in (env or {}).items()}!r})\n"
            f"sys.path.insert(0, {VERIF_ROOT!r})\n"
            "from lib.replay import run_call\n"
            f"sys.exit(run_call({rel!r}, {call_expr!r}))\n"
        )
    return path
