"""One CrossHair condition in one OS process.

usage: python -m lib.xh_worker <harness.py> <function> <per_condition_timeout_s> <out.json>

Runs, in this order, inside one interpreter (imports of /repo are paid once):
  1. the *vacuity twin*: same signature and `pre:` lines, body = call the harness, `post: False`.
     It must be refuted (some input satisfies the preconditions and runs the harness to its end).
  2. the harness condition itself with --report_all semantics.
Writes a JSON record; never decides exit codes (the caller does).
"""
from __future__ import annotations

import collections
import importlib.util
import inspect
import json
import os
import re
import sys
import time
import traceback


def load_module(path: str):
    name = "vh_" + os.path.splitext(os.path.basename(path))[0]
    spec = importlib.util.spec_from_file_location(name, path)
    mod = importlib.util.module_from_spec(spec)
    sys.modules[name] = mod
    spec.loader.exec_module(mod)
    return mod


def _pre_lines(fn) -> list[str]:
    doc = inspect.getdoc(fn) or ""
    return [ln.strip() for ln in doc.splitlines() if ln.strip().startswith("pre:")]


def make_twin(mod, fn, twin_dir: str):
    """Write and import a module holding the reachability twin of `fn`."""
    sig = inspect.signature(fn)
    params = ", ".join(
        f"{p.name}: {_ann(p.annotation)}" for p in sig.parameters.values()
    )
    args = ", ".join(p.name for p in sig.parameters.values())
    pre = "\n    ".join(_pre_lines(fn))
    src = (
        "import sys\n"
        f"_m = sys.modules[{mod.__name__!r}]\n"
        "globals().update({k: v for k, v in vars(_m).items() if not k.startswith('__')})\n"
        f"def twin_{fn.__name__}({params}) -> bool:\n"
        f'    """\n    {pre}\n    post: False\n    """\n'
        f"    _m.{fn.__name__}({args})\n"
        "    return True\n"
    )
    path = os.path.join(twin_dir, f"twin_{mod.__name__}_{fn.__name__}_{os.getpid()}.py")
    with open(path, "w") as f:
        f.write(src)
    tm = load_module(path)
    return getattr(tm, f"twin_{fn.__name__}")


def _ann(a) -> str:
    if a is inspect.Parameter.empty:
        return "object"
    if isinstance(a, str):
        return a
    if isinstance(a, type) and a.__module__ == "builtins":
        return a.__name__
    return str(a).replace("typing.", "")


CALL_RE = re.compile(r"when calling (.*?)(?: \(which (?:returns|raises) .*\))?$", re.S)


def analyse(fn, timeout: float, report_all: bool = True, per_path: float | None = None):
    from crosshair.core import analyze_function, run_checkables
    from crosshair.core_and_libs import standalone_statespace  # noqa: F401 (loads plugins)
    from crosshair.options import AnalysisOptionSet
    import crosshair.core as _xc

    if not getattr(_xc.consider_shortcircuit, "_verif", False):
        # CrossHair may *skip* a call to a contract-bearing function (its own `_hash` stand-in for the builtin
        # `hash` has one) and continue with an unconstrained symbolic result.  Real code that hashes dataclass
        # keys then behaves nondeterministically.  We never want that abstraction: always call into the body.
        _orig_cs = _xc.consider_shortcircuit

        def _never(fn, sig, bound, subconditions, allow_interpretation):
            if allow_interpretation:
                return None
            return _orig_cs(fn, sig, bound, subconditions, allow_interpretation)

        _never._verif = True  # type: ignore[attr-defined]
        _xc.consider_shortcircuit = _never

    stats: collections.Counter = collections.Counter()
    opts = AnalysisOptionSet(
        per_condition_timeout=float(timeout),
        per_path_timeout=per_path if per_path is not None else max(5.0, float(timeout) / 4),
        report_all=report_all,
        stats=stats,
        max_uninteresting_iterations=sys.maxsize,
    )
    t0 = time.time()
    msgs = run_checkables(analyze_function(fn, opts))
    wall = time.time() - t0
    out = []
    for m in msgs:
        call = None
        mm = CALL_RE.search(m.message or "")
        if mm:
            call = mm.group(1)
        out.append(
            {
                "state": m.state.name,
                "message": m.message,
                "line": m.line,
                "call": call,
            }
        )
    return out, dict(stats), wall


def verdict_of(msgs) -> str:
    states = {m["state"] for m in msgs}
    if states & {"POST_FAIL", "EXEC_ERR", "POST_ERR", "PRE_INVALID"}:
        return "counterexample"
    if "SYNTAX_ERR" in states or "IMPORT_ERR" in states:
        return "error"
    if "PRE_UNSAT" in states:
        return "unable_to_meet_precondition"
    if "CANNOT_CONFIRM" in states:
        return "not_confirmed"
    if states == {"CONFIRMED"}:
        return "confirmed"
    if not states:
        return "not_confirmed"
    return "not_confirmed"


def main() -> int:
    path, fname, timeout, outp = sys.argv[1], sys.argv[2], float(sys.argv[3]), sys.argv[4]
    rec: dict = {"harness": path, "function": fname, "timeout_s": timeout}
    t_start = time.time()
    try:
        import lib.repo_env  # noqa: F401

        mod = load_module(path)
        fn = getattr(mod, fname)
        rec["pre"] = _pre_lines(fn)
        rec["signature"] = str(inspect.signature(fn))
        import_s = time.time() - t_start
        rec["import_s"] = round(import_s, 2)
        twin_dir = os.environ.get("VERIF_TWIN_DIR") or os.path.dirname(outp)
        msgs, stats, wall = analyse(fn, timeout)
        rec["messages"] = msgs
        rec["verdict"] = verdict_of(msgs)
        rec["paths"] = stats.get("num_paths", 0)
        rec["stats"] = stats
        rec["solver_wall_s"] = round(wall, 2)
        if os.environ.get("VERIF_NO_TWIN") != "1" and rec["verdict"] != "counterexample":
            # the reachability twin matters only for a verdict that could be vacuous; a counterexample is its own witness of reachability
            # (and a twin over a condition that fails on every path would only run into its time limit)
            twin = make_twin(mod, fn, twin_dir)
            # (the twin gets the per-path allowance of the main run: a harness whose first symbolic path is slow is not vacuous)
            tmsgs, tstats, twall = analyse(twin, min(timeout, 120.0), report_all=True, per_path=max(5.0, float(timeout) / 4))
            tv = verdict_of(tmsgs)
            rec["twin"] = {
                "verdict": "reachable" if tv == "counterexample" else tv,
                "paths": tstats.get("num_paths", 0),
                "wall_s": round(twall, 2),
                "witness": next((m["call"] for m in tmsgs if m["call"]), None),
            }
        cx = [m for m in msgs if m["state"] in ("POST_FAIL", "EXEC_ERR", "POST_ERR")]
        rec["counterexamples"] = [
            {"call": m["call"], "message": m["message"]} for m in cx if m["call"]
        ]
        if rec["verdict"] == "counterexample" and not rec["counterexamples"]:
            # e.g. CrossHair's own NotDeterministic report: no input attached, nothing to replay -> inconclusive
            rec["verdict"] = "not_confirmed"
            rec["note"] = "; ".join(m["message"][:200] for m in cx)
    except BaseException as e:  # noqa: BLE001
        rec["verdict"] = "error"
        rec["error"] = "".join(traceback.format_exception(type(e), e, e.__traceback__))[-4000:]
    rec["wall_s"] = round(time.time() - t_start, 2)
    with open(outp, "w") as f:
        json.dump(rec, f, indent=1, default=str)
    return 0


if __name__ == "__main__":
    sys.exit(main())
