"""E5 — interpreter over the *checked* control-flow graphs the real front end produces (int / bool / tuple fragment).

After the real `check()` has run, `ENGINE.checked` holds, for the program and for every `std` function it reaches, the
type-annotated, desugared CFG.  This interpreter walks those CFGs over Python values:
  * `GlobalCall(def_id, args)` is resolved through the live definition objects: an `OpCompiler` / `BoolOpCompiler` binding is
    asked (its real closure) which HUGR op it lowers to and that op's semantics is applied (table below, 64-bit two's
    complement); `NoopCompiler` is the identity; a `@guppy` function — user code or std code such as `range`,
    `Range.__next__` — is interpreted through *its* checked CFG; `@guppy.declare`d functions are opaque recorded events;
    struct constructors, Option constructors / tests / unwraps are small models keyed by compiler class.
  * places (variables, struct fields, tuple elements) are read and written functionally.
What it is for: the type checker's decisions (which dunder, which overload variant, which coercion, reflected or direct,
how `for` becomes iterator calls) are inside the compared behaviour, and arithmetic wraps at 64 bit.
What it deliberately refuses: an arithmetic result outside int64 (`Overflow`: Python and Guppy legitimately differ), the
regions of the known C04 findings (`KnownRegion`: negative divisor of // and %, >> of a negative value) and any node or
callee kind it has no model for (`Unsupported`).  All three mean "path / program outside the claim", never "passed"."""
from __future__ import annotations

import ast

import lib.repo_env

lib.repo_env.shim()
import guppylang  # noqa: E402,F401
from hugr import tys as ht  # noqa: E402
from guppylang_internals.checker.core import FieldAccess, SubscriptAccess, TupleAccess, Variable  # noqa: E402
from guppylang_internals.tys.ty import InputFlags  # noqa: E402
from guppylang_internals.definition.custom import BoolOpCompiler, CustomFunctionDef, NoopCompiler, OpCompiler, RawCustomFunctionDef  # noqa: E402
from guppylang_internals.definition.declaration import RawFunctionDecl  # noqa: E402
from guppylang_internals.definition.function import CheckedFunctionDef  # noqa: E402
from guppylang_internals.engine import DEF_STORE, ENGINE  # noqa: E402
from guppylang_internals.nodes import (CheckedNestedFunctionDef, FieldAccessAndDrop, GenericParamValue, GlobalCall, LocalCall, PanicExpr, PlaceNode,  # noqa: E402
                                       SubscriptAccessAndDrop, TupleAccessAndDrop, TupleUnpack)

M, H = 1 << 64, 1 << 63


class Panic(Exception):
    pass


class Overflow(Exception):
    """an int result left int64: outside the claim (Python's unbounded result and the wrapped one legitimately differ)"""


class KnownRegion(Exception):
    """operands inside the region of a known C04 finding"""


class Unsupported(Exception):
    pass


class OutOfFuel(Exception):
    pass


class OutsideIndex(Exception):
    """an array index outside [0, n): Python wraps negative indices / raises IndexError, Guppy panics (C19's subject, outside C03/C05)"""


_ACC = [True]      # "every arithmetic result so far stayed inside int64" — accumulated without branching (one decision per run, not per op)


def _chk(v):
    _ACC[0] = _ACC[0] & (v >= -H) & (v < H)
    return v


def reset_acc():
    _ACC[0] = True


def check_acc():
    """raises Overflow if any result of the run left int64: the run continued with the mathematical values (as Python would),
    so whatever it produced afterwards is outside the compared behaviour"""
    if not _ACC[0]:
        raise Overflow()


def guarded(run):
    """run() with the deferred overflow decision applied to its outcome, normal or exceptional"""
    reset_acc()
    try:
        r = run()
    except Exception:
        check_acc()
        raise
    check_acc()
    return r


def _div(a, b):
    if b == 0:
        raise ZeroDivisionError("division by zero")      # (a panic at run time; Python raises this class at the same point)
    if b < 0:
        raise KnownRegion("negative divisor")
    return a // b


def _mod(a, b):
    if b == 0:
        raise ZeroDivisionError("division by zero")
    if b < 0:
        raise KnownRegion("negative divisor")
    return a % b


def _shr(a, b):
    if a < 0:
        raise KnownRegion(">> of a negative value")
    if not (0 <= b < 64):
        raise Overflow()
    return a >> b


def _shl(a, b):
    if not (0 <= b < 64):
        raise Overflow()
    return _chk(a << b)


def _pow(a, b):
    if b < 0:
        raise Panic("negative exponent")
    return _chk(a ** b)


def _realize(v):
    try:
        from crosshair.core import realize
        return realize(v)
    except Exception:  # noqa: BLE001
        return v


def _nonneg(a):
    if a < 0:
        raise Panic("conversion between int and nat out of range")
    return a


def _fdiv(a, b):
    if b == 0:
        raise Overflow()      # (HUGR gives inf / nan, Python raises: outside the compared behaviour)
    return a / b


OPS = {
    "arithmetic.int.iadd": lambda a, b: _chk(a + b), "arithmetic.int.isub": lambda a, b: _chk(a - b), "arithmetic.int.imul": lambda a, b: _chk(a * b),
    "arithmetic.int.ineg": lambda a: _chk(-a), "arithmetic.int.iabs": lambda a: _chk(abs(a)),
    "arithmetic.int.idiv_s": _div, "arithmetic.int.imod_s": _mod, "arithmetic.int.idivmod_s": lambda a, b: (_div(a, b), _mod(a, b)),
    "arithmetic.int.ieq": lambda a, b: a == b, "arithmetic.int.ine": lambda a, b: a != b,
    "arithmetic.int.ilt_s": lambda a, b: a < b, "arithmetic.int.ile_s": lambda a, b: a <= b, "arithmetic.int.igt_s": lambda a, b: a > b, "arithmetic.int.ige_s": lambda a, b: a >= b,
    # unsigned views (nat): the operands are read modulo 2^64
    "arithmetic.int.ilt_u": lambda a, b: (a % M) < (b % M), "arithmetic.int.ile_u": lambda a, b: (a % M) <= (b % M),
    "arithmetic.int.igt_u": lambda a, b: (a % M) > (b % M), "arithmetic.int.ige_u": lambda a, b: (a % M) >= (b % M),
    "arithmetic.int.is_to_u": lambda a: _nonneg(a), "arithmetic.int.iu_to_s": lambda a: _nonneg(a),
    "arithmetic.int.iand": lambda a, b: a & b, "arithmetic.int.ior": lambda a, b: a | b, "arithmetic.int.ixor": lambda a, b: a ^ b, "arithmetic.int.inot": lambda a: ~a,
    "arithmetic.int.ishl": _shl, "arithmetic.int.ishr": _shr, "arithmetic.int.ipow": _pow,
    # floats: Python's float is binary64, as is HUGR's float64
    "arithmetic.float.fadd": lambda a, b: a + b, "arithmetic.float.fsub": lambda a, b: a - b, "arithmetic.float.fmul": lambda a, b: a * b,
    "arithmetic.float.fneg": lambda a: -a, "arithmetic.float.fabs": lambda a: abs(a), "arithmetic.float.fdiv": lambda a, b: _fdiv(a, b),
    "arithmetic.float.feq": lambda a, b: a == b, "arithmetic.float.fne": lambda a, b: a != b, "arithmetic.float.flt": lambda a, b: a < b,
    "arithmetic.float.fle": lambda a, b: a <= b, "arithmetic.float.fgt": lambda a, b: a > b, "arithmetic.float.fge": lambda a, b: a >= b,
    "arithmetic.conversions.convert_s": lambda a: float(a), "arithmetic.conversions.convert_u": lambda a: float(a),
    "tket.bool.eq": lambda a, b: a == b, "tket.bool.and": lambda a, b: a and b, "tket.bool.or": lambda a, b: a or b, "tket.bool.xor": lambda a, b: a != b,
    "tket.bool.not": lambda a: not a,
}


class Struct:
    def __init__(self, vals):
        self.f = list(vals)


class Opt:
    def __init__(self, v):
        self.v = v


class Closure:
    def __init__(self, node):
        self.node = node


class Arr:
    """an array value (immutable; element updates build a new one)"""

    def __init__(self, vals):
        self.v = tuple(vals)


def op_name(raw):
    o = raw.call_compiler.op(ht.FunctionType([], []), [], None)
    return o.op_def().qualified_name()


_OPCACHE: dict = {}


class Interp:
    def __init__(self, rec, checked, fuel=600):
        self.rec = rec          # lib.e4.Rec: recording models of the opaque functions
        self.checked = checked  # snapshot of ENGINE.checked taken right after the program's check()
        self.fuel = fuel

    # ------------------------------------------------------------------ calls
    def call_def(self, def_id, args, type_args=()):
        return self.call_def2(def_id, args, type_args)[0]

    def call_def2(self, def_id, args, type_args=()):
        """-> (returned value, {argument index: value handed back for a borrowed argument})"""
        raw = DEF_STORE.raw_defs[def_id]
        if isinstance(raw, RawFunctionDecl):
            return self.rec.call(raw.name)(*args), {}
        if isinstance(raw, (RawCustomFunctionDef, CustomFunctionDef)):
            cc = raw.call_compiler
            cn = type(cc).__name__
            if isinstance(cc, (OpCompiler, BoolOpCompiler)):
                if def_id not in _OPCACHE:
                    _OPCACHE[def_id] = op_name(raw)
                name = _OPCACHE[def_id]
                if name not in OPS:
                    raise Unsupported(f"HUGR op {name}")
                return OPS[name](*args), {}
            if isinstance(cc, NoopCompiler):
                return args[0], {}
            if cn == "UnwrapOpCompiler":
                # an op with an Either result that is unwrapped (panics on the error side): float -> int / nat truncation
                if def_id not in _OPCACHE:
                    _OPCACHE[def_id] = op_name(raw)
                name = _OPCACHE[def_id]
                if name not in ("arithmetic.conversions.trunc_s", "arithmetic.conversions.trunc_u"):
                    raise Unsupported(f"unwrapped HUGR op {name}")
                f = args[0]
                if f != f or f in (float("inf"), float("-inf")) or not (-9.3e18 < f < 9.3e18) or (name.endswith("_u") and f < 0):
                    raise Overflow()        # (Python raises OverflowError / ValueError, Guppy panics: outside the compared behaviour)
                import math
                return _chk(math.trunc(f)), {}
            if cn == "OptionConstructor":
                return (Opt((args[0],)) if cc.tag == 1 else Opt(None)), {}
            if cn == "OptionTestCompiler":
                return (args[0].v is not None) == (cc.tag == 1), {}
            if cn == "OptionUnwrapCompiler":
                if args[0].v is None:
                    raise Panic("unwrap of nothing")
                return args[0].v[0], {}
            if cn == "OptionUnwrapNothingCompiler":
                if args[0].v is not None:
                    raise Panic("unwrap_nothing of some")
                return None, {}
            if cn == "ConstructorCompiler":
                return Struct(args), {}
            # ---- arrays of copyable elements: immutable Python tuples, updated functionally (arrays are affine, so no aliasing)
            if cn == "NewArrayCompiler":
                return Arr(args), {}
            if cn == "ArrayGetitemCompiler":
                a, i = args
                if 0 <= i < len(a.v):
                    i = _realize(i)
                if not (0 <= i < len(a.v)):
                    raise OutsideIndex()
                return a.v[i], {0: a}
            if cn == "ArraySetitemCompiler":
                a, i, v = args
                if 0 <= i < len(a.v):
                    i = _realize(i)
                if not (0 <= i < len(a.v)):
                    raise OutsideIndex()
                return None, {0: Arr(a.v[:i] + (v,) + a.v[i + 1:])}
            if cn == "CopyInoutCompiler":
                return args[0], {0: args[0]}
            if cn == "ArrayDiscardAllUsedCompiler":
                return None, {}
            raise Unsupported(f"custom function {raw.name} compiled by {cn}")
        chk = self.checked.get(def_id)
        if isinstance(chk, CheckedFunctionDef):
            names = chk.ty.input_names
            ret, env = self.run_cfg(chk.cfg, args, names, self._inst(type_args), want_env=True)
            upd = {}
            for i, inp in enumerate(chk.ty.inputs):
                if InputFlags.Inout in inp.flags:
                    upd[i] = env[names[i]]        # a borrowed argument is handed back as the callee left it
            return ret, upd
        kind = type(chk).__name__ if chk is not None else type(raw).__name__
        if "Constructor" in kind or "constructor" in str(getattr(raw, "description", "")):
            return Struct(args), {}
        raise Unsupported(f"definition {getattr(raw, 'name', '?')} of kind {kind}")

    def _inst(self, type_args):
        """values of the const parameters of a generic callee (type parameters carry no run-time value)"""
        out = {}
        for i, a in enumerate(type_args or ()):
            c = getattr(a, "const", None)
            if c is not None:
                if hasattr(c, "value"):
                    out[i] = c.value
                elif hasattr(c, "idx") and c.idx in self.generics:
                    out[i] = self.generics[c.idx]       # forwarded from the caller's own generic parameter
                else:
                    raise Unsupported("const argument that is not a value")
        return out

    # ------------------------------------------------------------------ places
    def read(self, env, place):
        if isinstance(place, Variable):
            return env[place.name]
        if isinstance(place, FieldAccess):
            s = self.read(env, place.parent)
            return s.f[[f.name for f in place.parent.ty.fields].index(place.field.name)]
        if isinstance(place, TupleAccess):
            return self.read(env, place.parent)[place.index]
        if isinstance(place, SubscriptAccess):
            # as ExprCompiler.visit_PlaceNode: the index is evaluated once per block and named, then `__getitem__` is called on
            # (parent place, index place); the call hands the borrowed parent back
            self._item(env, place)
            if place.getitem_call is None:
                raise Unsupported("subscript place without a getitem call read")
            return self.ev(env, place.getitem_call)
        raise Unsupported(type(place).__name__)

    def _item(self, env, place):
        done = env.setdefault("%items", set())
        if place.item.name not in done:
            done.add(place.item.name)
            env[place.item.name] = self.ev(env, place.item_expr)

    def write(self, env, place, val):
        if isinstance(place, Variable):
            env[place.name] = val
            return
        if isinstance(place, FieldAccess):
            s = self.read(env, place.parent)
            vals = list(s.f)
            vals[[f.name for f in place.parent.ty.fields].index(place.field.name)] = val
            self.write(env, place.parent, Struct(vals))
            return
        if isinstance(place, TupleAccess):
            t = list(self.read(env, place.parent))
            t[place.index] = val
            self.write(env, place.parent, tuple(t))
            return
        if isinstance(place, SubscriptAccess):
            # as StmtCompiler._assign_place / ExprCompiler._update_inout_ports: index (once per block), then `__setitem__`
            if place.setitem_call is None:
                raise Unsupported("subscript place without a setitem call written")
            self._item(env, place)
            env[place.setitem_call.value_var.name] = val
            self.ev(env, place.setitem_call.call)
            return
        raise Unsupported(type(place).__name__)

    # ------------------------------------------------------------------ expressions
    def ev(self, env, n):
        if isinstance(n, PlaceNode):
            return self.read(env, n.place)
        if isinstance(n, ast.Constant):
            return n.value
        if isinstance(n, ast.Tuple):
            return tuple(self.ev(env, e) for e in n.elts)
        if isinstance(n, GlobalCall):
            val, upd = self.call_def2(n.def_id, [self.ev(env, a) for a in n.args], n.type_args)
            for i, newv in upd.items():
                a = n.args[i]
                if isinstance(a, PlaceNode):       # (a borrowed argument that is not a place is dropped after the call)
                    self.write(env, a.place, newv)
            return val
        if isinstance(n, SubscriptAccessAndDrop):
            # as ExprCompiler.visit_SubscriptAccessAndDrop: the index is evaluated and named *first*, then the `__getitem__` call
            # (whose first argument is the container expression) is evaluated
            env[n.item.name] = self.ev(env, n.item_expr)
            return self.ev(env, n.getitem_expr)
        if isinstance(n, LocalCall):
            f = self.ev(env, n.func)
            args = [self.ev(env, a) for a in n.args]
            if isinstance(f, Closure):
                return self.run_cfg(f.node.cfg, args, f.node.ty.input_names)
            raise Unsupported("call of a non-closure local value")
        if isinstance(n, GenericParamValue):
            if n.param.idx not in self.generics:
                raise Unsupported("generic parameter without a value")
            return self.generics[n.param.idx]
        if isinstance(n, PanicExpr):
            msg = self.ev(env, n.msg) if isinstance(n.msg, ast.AST) else n.msg
            self.rec.panic(msg)
        if isinstance(n, ast.UnaryOp) and isinstance(n.op, ast.Not):
            return not self.ev(env, n.operand)
        if isinstance(n, FieldAccessAndDrop):
            s = self.ev(env, n.value)
            return s.f[[f.name for f in n.struct_ty.fields].index(n.field.name)]
        if isinstance(n, TupleAccessAndDrop):
            return self.ev(env, n.value)[n.index]
        raise Unsupported(type(n).__name__)

    def assign(self, env, tgt, val):
        if isinstance(tgt, PlaceNode):
            self.write(env, tgt.place, val)
            return
        if isinstance(tgt, TupleUnpack):
            p = tgt.pattern
            val = list(val)
            nl, nr = len(p.left), len(p.right)
            if p.starred is None:
                if len(val) != nl:
                    raise Unsupported("tuple of unexpected length")
            else:
                if len(val) < nl + nr:
                    raise Unsupported("tuple of unexpected length")
                self.assign(env, p.starred, val[nl:len(val) - nr])      # the starred target collects the middle elements in order
            for t, v in zip(p.left, val[:nl], strict=True):
                self.assign(env, t, v)
            for t, v in zip(p.right, val[len(val) - nr:] if nr else [], strict=True):
                self.assign(env, t, v)
            return
        raise Unsupported(type(tgt).__name__)

    generics: dict = {}

    def run_cfg(self, cfg, args, names=None, generics=None, want_env=False):
        saved = self.generics
        self.generics = generics or {}
        try:
            return self._run_cfg(cfg, args, names, want_env)
        finally:
            self.generics = saved

    def _run_cfg(self, cfg, args, names=None, want_env=False):
        if names is None:
            names = [v.name for v in cfg.entry_bb.sig.input_row]
        env = dict(zip(names, args, strict=True))
        bb, ret = cfg.entry_bb, None
        while True:
            self.fuel -= 1
            if self.fuel < 0:
                raise OutOfFuel()
            env["%items"] = set()        # (the compiler's per-block container: index temporaries are evaluated once per block)
            for s in bb.statements:
                if isinstance(s, ast.Assign):
                    self.assign(env, s.targets[0], self.ev(env, s.value))
                elif isinstance(s, ast.Expr):
                    self.ev(env, s.value)
                elif isinstance(s, ast.Return):
                    ret = self.ev(env, s.value) if s.value is not None else None
                elif isinstance(s, CheckedNestedFunctionDef):
                    if s.captured:
                        raise Unsupported("capturing closure")
                    env[s.name] = Closure(s)
                elif isinstance(s, ast.AnnAssign):
                    self.assign(env, s.target, self.ev(env, s.value))
                else:
                    raise Unsupported(type(s).__name__)
            if bb is cfg.exit_bb or not bb.successors:
                return (ret, env) if want_env else ret
            if len(bb.successors) > 1:
                bb = bb.successors[1] if self.ev(env, bb.branch_pred) else bb.successors[0]
            else:
                bb = bb.successors[0]


def check_and_snapshot(defn):
    """runs the real check() and returns the checked definitions it produced (ENGINE.check resets its caches per call)"""
    defn.check()
    return {k: v for k, v in ENGINE.checked.items()}


def run_checked(defn, checked, args, rec, fuel=600):
    """interpret the checked CFG of a @guppy definition"""
    chk = checked[defn.id]
    return guarded(lambda: Interp(rec, checked, fuel).run_cfg(chk.cfg, list(args), chk.ty.input_names))
