"""C08 — path oracle for definedness and path-dependent types, plus the corpus generator.

Programs assign and read the variables a, b, c under nested if / while / for / break / continue / return; conditions are
calls of the opaque `cond()` (for `for` loops the iteration count is likewise decided by the decision vector: branch
condition values are ignored for scoping, as the property says).  `sink(v)` reads v at any type.
One run of the oracle follows one decision vector and records, for every read site (line, variable), the type the variable
has there, or faults if it is unassigned:
  undefined       a read reaches a variable that no statement on this path has assigned
  type conflict   (two runs) the same read site is reached with the variable holding different types"""
from __future__ import annotations

import ast
import random

HEADER = '''\
from guppylang import guppy

T = guppy.type_var("T")


@guppy.declare
def cond() -> bool: ...


@guppy.declare
def sink(x: T) -> None: ...


from hugr.std.int import IntVal as _IntVal
g0 = guppy.constant("g0", "int", _IntVal(7, 6))   # a module-level Guppy constant: a function that assigns g0 anywhere (even in dead code) makes
# it a local (Python scoping), otherwise reads see this global

'''
GLOBALS = {"g0": "int"}

VALUES = {"int": "1", "bool": "True", "float": "2.5", "tuple": "(1, 2)"}


class Undefined(Exception):
    pass


class OutOfChoices(Exception):
    pass


class _Break(Exception):
    pass


class _Continue(Exception):
    pass


class _Return(Exception):
    pass


def _type_of_const(e):
    if isinstance(e, ast.Constant):
        return type(e.value).__name__
    if isinstance(e, ast.Tuple):
        return "tuple"
    raise AssertionError(ast.dump(e))


class Oracle:
    def __init__(self, fn, choices, dead_as_live=False):
        self.fn, self.choices, self.i = fn, choices, 0
        # dead_as_live: statements after a return / break / continue in the same statement list are never executed, but the compiler
        # analyses them as if control could fall through the jump (a dummy edge from the jumping block to whatever follows, in the same
        # statement list or after the enclosing construct).  With this flag every jump consumes one decision: taken (what really happens) or fallen through (the compiler's reading).  Used for the
        # *witness* searches only: a rejection is justified if some path of this more liberal reading reaches the faulty read.
        self.dead_as_live = dead_as_live
        self.env = {a.arg: ast.unparse(a.annotation) for a in fn.args.args}
        assigned_anywhere = {t.id for n in ast.walk(fn) for t in ([n.target] if isinstance(n, (ast.AnnAssign, ast.For)) else getattr(n, "targets", []) if isinstance(n, ast.Assign) else [])
                             if isinstance(t, ast.Name)}
        for g, ty in GLOBALS.items():
            if g not in assigned_anywhere:
                self.env[g] = ty      # never assigned in the function: the name refers to the module-level binding
        self.reads: dict = {}     # (line, var) -> type at the last time this site was reached ... all types seen
        self.seen: list = []

    def test(self, e):
        """literal True / False are what they say (the builder prunes the other edge); every other condition is opaque"""
        if isinstance(e, ast.Constant) and isinstance(e.value, bool):
            return e.value
        return self.cond()

    def cond(self):
        if self.i >= len(self.choices):
            raise OutOfChoices()
        c = self.choices[self.i]
        self.i += 1
        return c

    def read(self, name_node):
        v = name_node.id
        if v not in self.env:
            raise Undefined(f"{v} at line {name_node.lineno}")
        self.seen.append(((name_node.lineno, name_node.col_offset, v), self.env[v]))
        return self.env[v]

    def value_type(self, e):
        if isinstance(e, ast.Name):
            return self.read(e)
        return _type_of_const(e)

    def block(self, stmts):
        for k, s in enumerate(stmts):
            if self.dead_as_live and isinstance(s, (ast.Return, ast.Break, ast.Continue)) and not self.cond():
                continue        # fall through into the dead statements
            self.stmt(s)

    def stmt(self, s):
        if isinstance(s, ast.Assign):
            t = self.value_type(s.value)
            self.env[s.targets[0].id] = t
        elif isinstance(s, ast.AnnAssign):
            t = self.value_type(s.value)        # the value is evaluated (and its variables read) before the target is bound
            self.env[s.target.id] = t
        elif isinstance(s, ast.Expr):       # sink(v)
            self.read(s.value.args[0])
        elif isinstance(s, ast.If):
            self.block(s.body if self.test(s.test) else s.orelse)
        elif isinstance(s, (ast.While, ast.For)):
            while (self.test(s.test) if isinstance(s, ast.While) else self.cond()):
                if isinstance(s, ast.For):
                    self.env[s.target.id] = "int"
                try:
                    self.block(s.body)
                except _Break:
                    break
                except _Continue:
                    continue
        elif isinstance(s, ast.Break):
            raise _Break()
        elif isinstance(s, ast.Continue):
            raise _Continue()
        elif isinstance(s, ast.Return):
            raise _Return()
        elif isinstance(s, ast.Pass):
            pass
        else:
            raise AssertionError(ast.dump(s))

    def run(self):
        try:
            self.block(self.fn.body)
        except _Return:
            pass


def run_defined(fn, choices, dead_as_live=False) -> str:
    """'ok' | 'undefined: ...' | 'out-of-choices'"""
    o = Oracle(fn, choices, dead_as_live)
    try:
        o.run()
    except Undefined as u:
        return "undefined: " + str(u)
    except OutOfChoices:
        return "out-of-choices"
    return "ok"


def run_types(fn, c1, c2) -> str:
    """'ok' | 'conflict: ...' ; paths that fault or run out of choices contribute the reads made so far"""
    seen = []
    for c in (c1, c2):
        o = Oracle(fn, c)
        try:
            o.run()
        except (Undefined, OutOfChoices):
            pass
        seen.append(o.seen)
    t1: dict = {}
    for site, ty in seen[0]:
        t1.setdefault(site, set()).add(ty)
    for site, ty in seen[1]:
        if site in t1 and any(ty != u for u in t1[site]):
            return f"conflict: {site[2]} at line {site[0]} is {sorted(t1[site])} on one path and {ty} on another"
    # a single path can reach one site twice (loop) with different types
    for s in seen:
        d: dict = {}
        for site, ty in s:
            if site in d and d[site] != ty:
                return f"conflict: {site[2]} at line {site[0]} is {d[site]} and later {ty} on one path through a loop"
            d[site] = ty
    return "ok"


# ====================================================================================== corpus
class Gen:
    def __init__(self, rng, types):
        self.r, self.types = rng, types
        self.dead = random.Random(0)
        self.assigned = ["x"]     # variables assigned somewhere earlier in the text (reads prefer them: fewer trivial rejections)

    def rvar(self):
        if self.r.random() < 0.85:
            return self.r.choice(self.assigned)
        return self.r.choice(["a", "b", "c", "x", "g0"])

    def condition(self):
        return self.r.choice(["cond()"] * 8 + ["True", "False"])

    def dead_block(self, ind):
        """body of a branch the builder knows to be dead: assignments only (reads in dead code are analysed by the compiler
        as if reachable, which is outside this check)"""
        p = " " * ind
        out = []
        for _ in range(self.r.randint(1, 2)):
            v = self.r.choice(["a", "b", "c", "g0"])
            self.assigned.append(v)
            out.append(p + f"{v} = {VALUES[self.r.choice(self.types)]}")
        return out

    def stmt(self, d, in_loop, ind):
        p = " " * ind
        r = self.r.random()
        if d <= 0 or r < 0.52:
            k = self.r.random()
            v = self.r.choice(["a", "b", "c", "a", "b", "c", "g0"])
            if k < 0.06 and "int" in self.types:
                # annotated assignment whose value reads variables (possibly its own target)
                src = self.r.choice([v, self.rvar()])
                self.assigned.append(v)
                return [p + f"{v}: int = {src}"] if self.types == ["int"] else [p + f"{v} = {src}"]
            if k < 0.50:
                self.assigned.append(v)
                return [p + f"{v} = {VALUES[self.r.choice(self.types)]}"]
            if k < 0.62:
                src = self.rvar()
                self.assigned.append(v)
                return [p + f"{v} = {src}"]
            return [p + f"sink({self.rvar()})"]
        if r < 0.76:
            c = self.condition()
            lines = [p + f"if {c}:"] + (self.dead_block(ind + 4) if c == "False" else self.block(d - 1, in_loop, ind + 4))
            if self.r.random() < 0.55:
                lines += [p + "else:"] + (self.dead_block(ind + 4) if c == "True" else self.block(d - 1, in_loop, ind + 4))
            return lines
        if r < 0.86:
            c = self.r.choice(["cond()"] * 6 + ["False"])
            return [p + f"while {c}:"] + (self.dead_block(ind + 4) if c == "False" else self.block(d - 1, True, ind + 4))
        if r < 0.92:
            return [p + f"for {self.r.choice('ij')} in range(3):"] + self.block(d - 1, True, ind + 4)
        if r < 0.97 and in_loop:
            return [p + self.r.choice(["break", "continue"])]
        return [p + "return"]

    def block(self, d, in_loop, ind):
        out = []
        for _ in range(self.r.randint(1, 3)):
            lines = self.stmt(d, in_loop, ind)
            out += lines
            if lines[-1].strip() in ("break", "continue", "return"):
                # dead statements after the jump (own random stream, so that the live part of every program stays as it was): reads of variables that
                # were assigned earlier in the text and int assignments.  Soundness is judged on the real paths; a rejection must be justified by a path
                # of the compiler's reading, in which control may fall through the jump
                if self.dead.random() < 0.25:
                    p = " " * ind
                    for _ in range(self.dead.randint(1, 2)):
                        if self.dead.random() < 0.7:
                            out.append(p + f"sink({self.dead.choice(self.assigned)})")
                        else:
                            v = self.dead.choice(["a", "b", "c"])
                            self.assigned.append(v)
                            out.append(p + f"{v} = 1")
                break
        return out


FIXED = [
    "def u0(x: int) -> None:\n    if cond():\n        a = 1\n    sink(a)\n",
    "def u1(x: int) -> None:\n    if cond():\n        a = 1\n    else:\n        a = 2\n    sink(a)\n",
    "def u2(x: int) -> None:\n    if cond():\n        a = 1\n    else:\n        a = True\n    sink(a)\n",
    "def u3(x: int) -> None:\n    if cond():\n        a = 1\n    else:\n        a = True\n    a = 2\n    sink(a)\n",
    "def u4(x: int) -> None:\n    while cond():\n        a = 1\n    sink(a)\n",
    "def u5(x: int) -> None:\n    a = 1\n    while cond():\n        sink(a)\n        a = True\n",
    "def u6(x: int) -> None:\n    a = 1\n    while cond():\n        if cond():\n            a = 2.5\n            break\n        sink(a)\n    sink(x)\n",
    "def u7(x: int) -> None:\n    for i in range(3):\n        b = i\n    sink(b)\n",
    "def u8(x: int) -> None:\n    sink(c)\n",
    "def u9(x: int) -> None:\n    a = 1\n    if cond():\n        a = (1, 2)\n    if cond():\n        sink(x)\n    else:\n        sink(a)\n",
    "def u10(x: int) -> None:\n    while cond():\n        if cond():\n            a = 1\n            continue\n        b = 2\n    sink(x)\n",
    "def u11(x: int) -> None:\n    if cond():\n        a = 1\n        return\n    a = True\n    sink(a)\n",
    "def u13(x: int) -> None:\n    if False:\n        g0 = 1\n    sink(g0)\n",
    "def u14(x: int) -> None:\n    sink(g0)\n",
    "def u16(x: int) -> None:\n    a = 1\n    if cond():\n        a: int = a\n    sink(a)\n",
    "def u17(x: int) -> None:\n    while cond():\n        g0: int = g0\n    sink(x)\n",
    "def u18(x: int) -> None:\n    if cond():\n        b: int = b\n    sink(x)\n",
    "def u19(x: int) -> None:\n    while False:\n        c = 2\n    sink(c)\n",
    "def u20(x: int) -> None:\n    if True:\n        a = 1\n    sink(a)\n",
    "def u12(x: int) -> None:\n    a = 1\n    b = a\n    if cond():\n        b = True\n    c = b\n",
    # a name that is also a module-level binding, read in the *entry* block before the function assigns it (it is a local: Python
    # raises UnboundLocalError) -- added after the side observation of seeding agent C08 (round 3)
    "def u21(x: int) -> None:\n    sink(g0)\n    g0 = 1\n",
    "def u22(x: int) -> None:\n    a = g0\n    if cond():\n        g0 = 2\n    sink(a)\n",
    "def u23(x: int) -> None:\n    sink(g0)\n    while cond():\n        g0 = 1\n        sink(g0)\n",
    "def u24(x: int) -> None:\n    g0: int = g0\n    sink(g0)\n",
    "def u25(x: int) -> None:\n    g0 = 1\n    sink(g0)\n    g0 = 2\n",
    # reads in dead code after a jump (a block-splitting statement before the jump: seed C08-4)
    "def u26(x: int) -> None:\n    a = 1\n    if cond():\n        b = 2\n    else:\n        b = 3\n    return\n    sink(a)\n    sink(b)\n",
    "def u27(x: int) -> None:\n    while cond():\n        a = 1\n        if cond():\n            sink(a)\n        break\n        sink(a)\n        sink(x)\n",
    "def u28(x: int) -> None:\n    for i in range(3):\n        b = i\n        if cond():\n            b = 2\n        continue\n        sink(b)\n",
    "def u29(x: int) -> None:\n    return\n    sink(c)\n",
    "def u30(x: int) -> None:\n    if cond():\n        a = 1\n    return\n    sink(a)\n",
]


def gen_program(i, seed, depth):
    rng = random.Random(f"c08-{seed}-{i}")
    g = Gen(rng, rng.choice([["int"], ["int", "bool"], ["int", "bool"], ["int", "bool", "float", "tuple"]]))
    g.dead = random.Random(f"c08dead-{seed}-{i}")
    body = g.block(depth, False, 4)
    # (own stream, so the bodies stay as they were) now and then the module-level name g0 is read in the entry block before anything else
    pre = random.Random(f"c08pre-{seed}-{i}")
    if pre.random() < 0.12:
        body = [pre.choice(["    sink(g0)", "    a = g0", "    b = g0"])] + body
    return "\n".join([f"def p{i}(x: int) -> None:"] + body) + "\n"


def corpus(n, seed, depth=2):
    progs, seen, i = list(FIXED), set(), 0
    while len(progs) < n + len(FIXED) and i < 30 * n + 100:
        src = gen_program(i, seed, depth)
        i += 1
        body = src.split("\n", 1)[1]
        if body in seen:
            continue
        seen.add(body)
        progs.append(src)
    return progs


def module_text(progs):
    out = [HEADER]
    names = []
    for src in progs:
        names.append(src.split("(")[0].split()[-1])
        out.append("@guppy\n" + src.strip() + "\n\n")
    out.append("PROGRAMS = [" + ", ".join(names) + "]\n")
    return "\n".join(out)
