"""Shared driver of the E4 checks (C03, C05, C32): batches of corpus programs -> CrossHair jobs -> verdict bookkeeping."""
from __future__ import annotations

import glob
import json
import os

from lib.core import Ctx, Job

H = "harness/E4_equiv.py"


def jobs_for(ctx: Ctx, kind: str, n: int, batch: int, timeout: float, region: str | None = None, key: str | None = None,
             fuel: int = 80, total: int | None = None, harness: str = H, fn: str = "h_equiv", upto: int | None = None, single_upto: int = 0):
    """`single_upto`: the first programs of a corpus are the hand-written heavy ones (loops over symbolic ranges, structs, arrays): each gets a job of its own"""
    total = total if total is not None else n
    jobs = []
    idx = list(range(total if upto is None else min(total, upto)))
    chunks = [[i] for i in idx if i < single_upto]
    rest = [i for i in idx if i >= single_upto]
    chunks += [rest[b:b + batch] for b in range(0, len(rest), batch)]
    for chunk in chunks:
        env = {"VERIF_E4_KIND": kind, "VERIF_E4_N": n, "VERIF_E4_SEED": ctx.seed if kind != "c32" else 0,
               "VERIF_E4_BATCH": ",".join(map(str, chunk)), "VERIF_E4_FUEL": fuel}
        if region:
            env["VERIF_E4_REGION"] = region
        tag = f"{kind}{'/' + region if region else ''}[{chunk[0]}..{chunk[-1]}]"
        jobs.append(Job(harness, fn, timeout=timeout, name=f"{fn}:{tag}", env=env,
                        role=f"finding:{key}" if key else "main"))
    return jobs


def collect_verdicts(ctx: Ctx, crash_is_note: bool = False) -> dict:
    """Reads the per-batch verdict files the harness processes left in the work directory."""
    out = {"accepted": 0, "rejected": 0, "other": 0, "rejected_why": {}, "programs": []}
    for f in sorted(glob.glob(os.path.join(ctx.workdir, "e4verdict_*.json"))):
        for rec in json.load(open(f)):
            v = rec["verdict"]
            if v == "accepted":
                out["accepted"] += 1
            elif v == "rejected":
                out["rejected"] += 1
                out["rejected_why"][rec["why"]] = out["rejected_why"].get(rec["why"], 0) + 1
            else:
                out["other"] += 1
                if crash_is_note and v == "crashed":
                    ctx.notes.append(f"program {rec['index']}: the checker raised a non-Guppy exception ({rec['why']}); that is property C02's subject, not a silent acceptance")
                else:
                    ctx.harness_errors.append(f"program {rec['index']} {v}: {rec['why']}")
            out["programs"].append({"file": os.path.basename(f), "index": rec["index"], "verdict": v, "why": rec["why"], "src": rec["src"]})
    return out


def collect_e5(ctx: Ctx, prefix: str = "e5report") -> dict:
    out = {"unsupported_programs": {}, "paths_outside": {}, "programs": 0, "accepted": 0}
    for f in sorted(glob.glob(os.path.join(ctx.workdir, prefix + "_*.json"))):
        r = json.load(open(f))
        out["unsupported_programs"].update(r["unsupported"])
        for k, v in r["paths_outside"].items():
            out["paths_outside"][k] = out["paths_outside"].get(k, 0) + v
        out["programs"] += r["programs"]
        out["accepted"] += r["accepted"]
        if r.get("not_lowered"):
            out.setdefault("not_lowered", []).extend(r["not_lowered"])
    return out
