"""Make /repo's own sources importable (they are NOT what /venv's site-packages holds).

/venv has guppylang 1.0.4 + hugr 0.18 + tket-exts 0.14; /repo is guppylang 0.21.6 which
wants hugr 0.14 / tket-exts 0.12.  Two tiny compatibility patches make /repo's *front end*
import and run (DESIGN.md section 1).  Nothing here changes behaviour of a checked kernel.

Importing this module is the first thing every harness does.  The repository root comes from
VERIF_REPO_ROOT (default /repo) so the private mutation self-tests can point at scratch copies.
"""
from __future__ import annotations

import os
import sys

REPO_ROOT = os.path.realpath(os.environ.get("VERIF_REPO_ROOT", "/repo"))
SRC_DIRS = [
    os.path.join(REPO_ROOT, "guppylang", "src"),
    os.path.join(REPO_ROOT, "guppylang-internals", "src"),
]
VERIF_ROOT = os.path.dirname(os.path.dirname(os.path.abspath(__file__)))

for _p in reversed(SRC_DIRS):
    if _p in sys.path:
        sys.path.remove(_p)
    sys.path.insert(0, _p)
if VERIF_ROOT not in sys.path:
    sys.path.append(VERIF_ROOT)

os.environ.setdefault("CQCL_GUPPYLANG_VERIF", "1")

_SHIMMED = False


def shim() -> None:
    """Install the import shim (needed for anything that imports guppylang's std / decorator)."""
    global _SHIMMED
    if _SHIMMED:
        return
    import tket_exts
    from hugr import ext, tys as ht
    from hugr import val as hv

    if not hasattr(tket_exts, "bool") or getattr(tket_exts.bool, "_verif", False) is False:
        e = ext.Extension("tket.bool", ext.Version(0, 2, 0))
        td = e.add_type_def(
            ext.TypeDef("bool", "opaque bool", [], ext.ExplicitBound(ht.TypeBound.Copyable))
        )
        B = ht.ExtType(td)

        def op(name, ins, outs):
            e.add_op_def(ext.OpDef(name, ext.OpDefSig(ht.FunctionType(ins, outs))))

        op("read", [B], [ht.Bool])
        op("make_opaque", [ht.Bool], [B])
        op("not", [B], [B])
        for n in ("eq", "and", "or", "xor"):
            op(n, [B, B], [B])

        def _bool():
            return e

        _bool._verif = True  # type: ignore[attr-defined]
        tket_exts.bool = _bool

    if not getattr(hv.Extension.__init__, "_verif", False):
        _orig_init = hv.Extension.__init__

        def _init(self, *a, extensions=None, **k):
            _orig_init(self, *a, **k)

        _init._verif = True  # type: ignore[attr-defined]
        hv.Extension.__init__ = _init
    _SHIMMED = True


def assert_repo(*mods) -> None:
    """Refuse to go on if a module did not come from REPO_ROOT."""
    for m in mods:
        f = os.path.realpath(getattr(m, "__file__", "") or "")
        if not f.startswith(REPO_ROOT + os.sep):
            raise RuntimeError(f"{m.__name__} loaded from {f}, not from {REPO_ROOT}")


def src(relpath: str) -> str:
    """Absolute path of a file given relative to the repository root."""
    return os.path.join(REPO_ROOT, relpath)


def read(relpath: str) -> str:
    with open(src(relpath)) as f:
        return f.read()
