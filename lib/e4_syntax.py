"""C32 corpus: one small program per Python statement kind, optional clause and expression kind, each placed in an otherwise
valid int function whose result (or event trace) depends on the construct taking effect.  `programs()` returns the
sources; `coverage()` reports which `ast.stmt` / `ast.expr` node classes and optional clauses occur in the corpus."""
from __future__ import annotations

import ast

# (name, body lines); every program is `def <name>(x: int, y: int) -> int:`
TABLE = [
    ("while_else", ["n = 0", "while n < x:", "    n += 1", "else:", "    return 100", "return n"]),
    ("while_else_break", ["n = 0", "while n < 3:", "    n += 1", "    if n == x:", "        break", "else:", "    n = 50", "return n"]),
    ("for_else", ["s = 0", "for i in range(x):", "    s += i", "else:", "    s += 1000", "return s"]),
    ("for_else_break", ["s = 0", "for i in range(3):", "    if i == x:", "        break", "    s += 1", "else:", "    s = 77", "return s"]),
    ("loop_else_emit", ["n = 0", "while n < 2:", "    n += 1", "else:", "    emit(5)", "return n"]),
    ("keyword_argument", ["return f(a=x)"]),
    ("keyword_argument_nested", ["def inner(t: int, u: int) -> int:", "    return t - u", "return inner(u=x, t=y)"]),
    ("keyword_argument_panic", ["if x > 100:", "    panic('boom', signal=3)", "return x"]),
    ("keyword_argument_exit", ["if x > 100:", "    exit('bye', 1, code=3)", "return x"]),
    ("keyword_argument_array", ["t = array(x, y, extra=1)", "return x"]),
    ("keyword_argument_result", ["result('tag', value=x)", "return x"]),
    ("keyword_argument_range", ["s = 0", "for i in range(stop=3):", "    s += i", "return s"]),
    ("keyword_argument_int", ["return int(x=y)"]),
    ("keyword_argument_qubit", ["q = qubit(label=1)", "discard(q)", "return x"]),
    ("keyword_argument_method", ["return x.__add__(other=y)"]),
    ("keyword_argument_len", ["t = array(x, y)", "return len(obj=t)"]),
    ("nested_decorator", ["@twice", "def inner(t: int) -> int:", "    return t + 1", "return inner(x)"]),
    ("nested_default", ["def inner(t: int = 5) -> int:", "    return t", "return inner()"]),
    ("nested_default_used_positionally", ["def inner(t: int, u: int = 7) -> int:", "    return t + u", "return inner(x)"]),
    ("nested_varargs", ["def inner(*ts: int) -> int:", "    return 1", "return inner(x, y)"]),
    ("nested_kwargs", ["def inner(**ts: int) -> int:", "    return 1", "return inner(a=x)"]),
    ("nested_kwonly", ["def inner(*, t: int) -> int:", "    return t", "return inner(t=x)"]),
    ("nested_posonly", ["def inner(t: int, /) -> int:", "    return t + 1", "return inner(x)"]),
    ("nested_plain", ["def inner(t: int) -> int:", "    return t + 1", "return inner(x)"]),
    ("nested_returns_annotation_missing", ["def inner(t: int):", "    return t + 1", "return inner(x)"]),
    ("global_stmt", ["global G", "G = x", "return G"]),
    ("nonlocal_stmt", ["a = 1", "def inner() -> int:", "    nonlocal a", "    a = 2", "    return a", "inner()", "return a"]),
    ("del_stmt", ["a = x", "del a", "return y"]),
    ("del_then_use", ["a = x", "b = a", "del a", "return b"]),
    ("assert_stmt", ["assert x > 100", "return x"]),
    ("assert_msg", ["assert x > 100, 'boom'", "return x"]),
    ("raise_stmt", ["if x > 100:", "    raise ValueError()", "return x"]),
    ("try_except", ["try:", "    a = f(x)", "except Exception:", "    a = 0", "return a"]),
    ("try_finally", ["try:", "    a = x", "finally:", "    emit(1)", "return a"]),
    ("with_as", ["with ctx() as c:", "    a = x", "return a"]),
    ("with_plain", ["with ctx():", "    a = x", "return a"]),
    ("lambda_expr", ["k = lambda t: t + 1", "return k(x)"]),
    ("match_stmt", ["match x:", "    case 1:", "        return 10", "    case _:", "        return 20"]),
    ("starred_assign", ["a, *b = (x, y, x)", "return a"]),
    ("starred_assign_middle", ["a, *b, c = (x, y, x, y)", "return c"]),
    ("slice_expr", ["t = (x, y, x)", "u = t[0:2]", "return x"]),
    ("subscript_const", ["t = (x, y)", "return t[1]"]),
    ("subscript_negative", ["t = (x, y)", "return t[-1]"]),
    ("dict_literal", ["d = {1: x}", "return x"]),
    ("set_literal", ["d = {x, y}", "return x"]),
    ("list_literal", ["d = [x, y]", "return x"]),
    ("list_comprehension", ["d = [i for i in range(3)]", "return x"]),
    ("generator_expression", ["d = (i for i in range(3))", "return x"]),
    ("dict_comprehension", ["d = {i: i for i in range(3)}", "return x"]),
    ("set_comprehension", ["d = {i for i in range(3)}", "return x"]),
    ("fstring", ["s = f'{x}'", "return x"]),
    ("string_constant_stmt", ["'just a string'", "return x"]),
    ("bytes_constant", ["s = b'ab'", "return x"]),
    ("none_constant", ["s = None", "return x"]),
    ("ellipsis_stmt", ["...", "return x"]),
    ("is_compare", ["if x is y:", "    return 1", "return 0"]),
    ("is_not_compare", ["if x is not y:", "    return 1", "return 0"]),
    ("in_compare", ["if x in (1, 2):", "    return 1", "return 0"]),
    ("not_in_compare", ["if x not in (1, 2):", "    return 1", "return 0"]),
    ("chained_assign", ["a = b = x", "return a + b"]),
    ("bare_annotation", ["a: int", "a = x", "return a"]),
    ("annotated_assign", ["a: int = x", "return a"]),
    ("annotated_assign_wrong_type_used", ["# enumerate: x     (an int -> float -> int round trip of the input: enumerated by the solver)", "a: float = x", "return int(a)"]),
    ("aug_assign_ops", ["a = x", "a += 1", "a -= y", "a *= 2", "return a"]),
    ("aug_assign_floordiv_mod", ["a = x + 10", "a //= 3", "a %= 5", "return a"]),
    ("aug_assign_bitops", ["a = 13", "a &= 6", "a |= 1", "a ^= 3", "return a + x"]),
    ("aug_assign_shift", ["a = 3", "a <<= 2", "a >>= 1", "return a"]),
    ("aug_assign_pow", ["a = 3", "a **= 2", "return a"]),
    ("matmult", ["return x @ y"]),
    ("unary_ops", ["return +x + (-y) + (~2)"]),
    ("pow_floordiv_mod", ["return ((x + 10) // 3) % 4 + 2 ** 3"]),
    ("bit_ops", ["return ((12 & 6) | (9 ^ 3)) + x"]),
    ("shift_ops", ["return (3 << 2) >> 1"]),
    ("pass_stmt", ["pass", "return x"]),
    ("expr_stmt_call", ["emit(x)", "return y"]),
    ("expr_stmt_pure", ["x + y", "return x"]),
    ("if_expr", ["return x if x > y else y"]),
    ("walrus_stmt", ["(a := x + 1)", "return a"]),
    ("nested_tuple_unpack", ["(a, b), c = (x, y), x", "return a + b + c"]),
    ("list_pattern_unpack", ["[a, b] = (x, y)", "return a - b"]),
    ("multiple_return_paths", ["if x > 0:", "    return 1", "elif x < 0:", "    return -1", "return 0"]),
    ("return_none_in_int_function", ["if x > 100:", "    return", "return x"]),
    ("import_stmt", ["import math", "return x"]),
    ("import_from_stmt", ["from math import floor", "return x"]),
    ("class_def", ["class K:", "    pass", "return x"]),
    ("yield_expr", ["yield x"]),
    ("yield_from_expr", ["yield from (x, y)"]),
    ("async_nested_def", ["async def inner() -> int:", "    return 1", "return x"]),
    ("type_alias_stmt", ["type T = int", "return x"]),
    ("try_star", ["try:", "    a = x", "except* ValueError:", "    a = 0", "return a"]),
    ("attribute_access", ["return x.real"]),
    ("attribute_assign", ["x.foo = 1", "return x"]),
    ("subscript_assign_tuple", ["t = (x, y)", "t[0] = 5", "return t[0]"]),
    ("call_star_args", ["t = (x,)", "return f(*t)"]),
    ("call_double_star", ["return f(**{'a': x})"]),
    ("bool_ops", ["if x > 0 and y > 0 or not x == y:", "    return 1", "return 0"]),
    ("compare_chain", ["if 0 <= x < y <= 100:", "    return 1", "return 0"]),
    ("while_true_break", ["n = 0", "while True:", "    n += 1", "    if n > x:", "        break", "    if n > 5:", "        break", "return n"]),
    ("continue_stmt", ["s = 0", "for i in range(4):", "    if i == x:", "        continue", "    s += i", "return s"]),
    ("nested_def_with_docstring", ["def inner(t: int) -> int:", "    'doc'", "    return t", "return inner(x)"]),
    ("conditional_def", ["if x > 0:", "    def inner(t: int) -> int:", "        return t + 1", "else:", "    def inner(t: int) -> int:", "        return t - 1", "return inner(y)"]),
    ("int_call_builtin", ["return int(x > y)"]),
    ("bool_call_builtin", ["if bool(x):", "    return 1", "return 0"]),
    ("abs_call_builtin", ["return abs(x - y)"]),
    ("tuple_return_index", ["t = (x + 1, y - 1)", "a, b = t", "return a * b"]),
    ("semicolon_statements", ["a = x; b = y; a += b", "return a"]),
    ("comment_only_branch", ["if x > 0:", "    pass  # nothing", "else:", "    x = -x", "return x"]),
    ("type_comment_ignored", ["a = x  # type: int", "return a"]),
    # keyword arguments and `as` clauses in the call-like forms the front end treats specially (round-3 seeds / side observations)
    ("comptime_keyword", ["return comptime(5, k=3) + x"]),
    ("py_keyword", ["return py(5, k=3) + x"]),
    ("walrus_in_comprehension_bound", ["t = 0", "xs = array((t := v + x) for v in range(3))", "return t + xs[0]"]),
    # (names starting with exp_ are checked with the experimental features enabled: modifier blocks)
    ("exp_with_modifier_keyword_dagger", ["q = qubit()", "with dagger(k=1):", "    h(q)", "discard(q)", "return x"]),
    ("exp_with_modifier_keyword_control", ["q = qubit()", "c = qubit()", "with control(c, k=1):", "    h(q)", "discard(q)", "discard(c)", "return x"]),
    ("exp_with_modifier_keyword_power", ["q = qubit()", "with power(2, k=1):", "    h(q)", "discard(q)", "return x"]),
    ("exp_with_as_first_item", ["q = qubit()", "c = qubit()", "with control(c) as z:", "    h(q)", "discard(q)", "discard(c)", "return x"]),
    ("exp_with_as_second_item", ["q = qubit()", "c = qubit()", "with dagger, control(c) as z:", "    h(q)", "discard(q)", "discard(c)", "return x"]),
    ("exp_with_as_third_item", ["q = qubit()", "c = qubit()", "with dagger, power(2), control(c) as z:", "    h(q)", "discard(q)", "discard(c)", "return x"]),
    ("exp_with_modifiers_plain", ["q = qubit()", "c = qubit()", "with dagger, control(c):", "    h(q)", "discard(q)", "discard(c)", "return x"]),
]


def programs() -> list[str]:
    out = []
    for name, body in TABLE:
        out.append(f"def s_{name}(x: int, y: int) -> int:\n" + "\n".join("    " + ln for ln in body) + "\n")
    return out


# helper bindings the CPython side needs so that constructs are *observable* there
class _Ctx:
    def __enter__(self):
        return 1

    def __exit__(self, *a):
        return False


EXTRA_ENV = {
    "twice": lambda fn: (lambda t: fn(fn(t))),
    "ctx": _Ctx,
    "G": 0,
}


MODULE_EXTRA = '''
class _Ctx:
    def __enter__(self):
        return 1

    def __exit__(self, *a):
        return False


def twice(fn):
    return lambda t: fn(fn(t))


ctx = _Ctx
G = 0
from guppylang.std.builtins import array, exit, result  # noqa: E402
from guppylang.std.quantum import qubit, discard, h  # noqa: E402
from guppylang.std.builtins import comptime, py  # noqa: E402
'''


def silently_dropped_clause(src: str):
    """Clauses for which the checked program has no representation at all: if the front end accepts a program that contains
    one, the clause was dropped.  Currently: keyword arguments of calls (checked calls carry positional arguments only)."""
    for n in ast.walk(ast.parse(src)):
        if isinstance(n, ast.Call) and n.keywords:
            return "keyword argument `" + ast.unparse(n.keywords[0]) + "` in `" + ast.unparse(n) + "`"
        if isinstance(n, ast.With):
            for it in n.items:
                if it.optional_vars is not None:        # (`with` is only kept for modifier blocks, which bind nothing)
                    return "`as " + ast.unparse(it.optional_vars) + "` clause in `with " + ", ".join(ast.unparse(i) for i in n.items) + "`"
    return None


def coverage() -> dict:
    """node classes of ast.stmt / ast.expr (and optional clauses) present / absent in the corpus"""
    present = set()
    clauses = set()
    for src in programs():
        try:
            tree = ast.parse(src)
        except SyntaxError:
            continue
        for n in ast.walk(tree):
            present.add(type(n).__name__)
            if isinstance(n, (ast.While, ast.For)) and n.orelse:
                clauses.add(type(n).__name__ + ".orelse")
            if isinstance(n, ast.Try):
                clauses |= {"Try.handlers"} if n.handlers else set()
                clauses |= {"Try.finalbody"} if n.finalbody else set()
            if isinstance(n, ast.FunctionDef):
                a = n.args
                clauses |= {c for c, v in (("FunctionDef.decorator_list", n.decorator_list), ("arguments.defaults", a.defaults), ("arguments.vararg", a.vararg),
                                          ("arguments.kwarg", a.kwarg), ("arguments.kwonlyargs", a.kwonlyargs), ("arguments.posonlyargs", a.posonlyargs)) if v}
            if isinstance(n, ast.Call) and n.keywords:
                clauses.add("Call.keywords")
            if isinstance(n, ast.withitem) and n.optional_vars is not None:
                clauses.add("withitem.optional_vars")
            if isinstance(n, ast.Assert) and n.msg is not None:
                clauses.add("Assert.msg")
    def subs(c):
        out = []
        for s in c.__subclasses__():
            if s.__module__ in ("ast", "_ast") and s.__name__ not in ("Num", "Str", "Bytes", "NameConstant", "Ellipsis"):   # CPython's own, non-deprecated
                out.append(s.__name__)
            out += subs(s)
        return out
    wanted = sorted(set(subs(ast.stmt) + subs(ast.expr)))
    return {"node_classes_present": sorted(present & set(wanted)), "node_classes_absent": sorted(set(wanted) - present), "optional_clauses_present": sorted(clauses)}
