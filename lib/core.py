"""Shared machinery: obligations, CrossHair job runner, replay, known findings, evidence."""
from __future__ import annotations

import concurrent.futures as cf
import hashlib
import json
import os
import shutil
import subprocess
import sys
import tempfile
import time
from dataclasses import dataclass, field
from typing import Any, Callable

VERIF_ROOT = os.path.dirname(os.path.dirname(os.path.abspath(__file__)))
PY = os.path.join(VERIF_ROOT, ".venv", "bin", "python")
REPO_ROOT = os.path.realpath(os.environ.get("VERIF_REPO_ROOT", "/repo"))
KF_PATH = os.path.join(VERIF_ROOT, "known_findings.json")

EXIT_OK, EXIT_VIOLATION, EXIT_HARNESS = 0, 1, 3


# ----------------------------------------------------------------------------- findings
def load_findings() -> list[dict]:
    if not os.path.exists(KF_PATH):
        return []
    with open(KF_PATH) as f:
        return json.load(f).get("findings", [])


def known_keys(prop: str) -> dict[str, dict]:
    """Keys of findings that are listed as *known* (not fixed) for a property."""
    return {
        e["key"]: e
        for e in load_findings()
        if e.get("property") == prop and e.get("status") == "known"
    }


# ----------------------------------------------------------------------------- jobs
@dataclass
class Job:
    """One CrossHair condition = one OS process."""

    harness: str  # path relative to /verif
    fn: str
    timeout: float = 60.0
    role: str = "main"  # "main" | "finding:<key>"
    name: str = ""
    env: dict = field(default_factory=dict)
    note: str = ""
    # "counterexample": the condition states the *absence* of a witness; a replayed counterexample IS the witness we want
    # (obligation discharged), "confirmed over all paths" means no witness exists within the bound = a violation, which is
    # then re-established natively by evaluating `exhaustive_call` (must return False) before it is reported
    expect: str = ""
    exhaustive_call: str = ""
    # an expression that runs every case of this job's enumeration in order inside ONE interpreter session and is false if any fails.
    # Used when a counterexample does not reproduce in a fresh interpreter: the code under test may keep state between the
    # solver's paths (exactly what history-style defects do), and then the failure exists only after the earlier cases
    session_call: str = ""

    @property
    def ident(self) -> str:
        return self.name or f"{os.path.basename(self.harness)}:{self.fn}"


@dataclass
class Obligation:
    name: str
    engine: str  # "crosshair" | "z3" | "cvc5" | "concrete"
    verdict: str  # confirmed | counterexample | not_confirmed | vacuous | error | known_finding
    role: str = "main"
    bounds: Any = None
    paths: int = 0
    wall_s: float = 0.0
    solver_s: float = 0.0
    detail: dict = field(default_factory=dict)

    def conclusive(self) -> bool:
        return self.verdict in ("confirmed", "counterexample", "known_finding")


def src_sha(relpaths: list[str]) -> dict[str, str]:
    out = {}
    for r in relpaths:
        p = os.path.join(REPO_ROOT, r)
        try:
            with open(p, "rb") as f:
                out[r] = hashlib.sha256(f.read()).hexdigest()[:16]
        except OSError:
            out[r] = "missing"
    return out


class Ctx:
    def __init__(self, prop: str, tier: str, seed: int):
        self.prop, self.tier, self.seed = prop, tier, seed
        self.t0 = time.time()
        self.obligations: list[Obligation] = []
        self.violations: list[dict] = []  # {what, replay}
        self.known_hits: list[dict] = []  # {key, what}
        self.harness_errors: list[str] = []
        self.samples: list[Any] = []
        self.notes: list[str] = []
        self.functions_encoded: list[str] = []
        self.assumptions: list[str] = []
        self.bounds: dict = {}
        self.outside_claim: list[str] = []
        self.extra: dict = {}
        self.known = known_keys(prop)
        self.workdir = tempfile.mkdtemp(prefix=f"verif-{prop}-", dir="/var/tmp")
        self.par = int(os.environ.get("VERIF_PAR", "0")) or min(16, os.cpu_count() or 4)

    @property
    def quick(self) -> bool:
        return self.tier == "quick"

    def pick(self, quick, thorough):
        return quick if self.quick else thorough

    def cleanup(self) -> None:
        shutil.rmtree(self.workdir, ignore_errors=True)

    # ------------------------------------------------------------------ crosshair
    def _run_worker(self, job: Job) -> dict:
        out = os.path.join(self.workdir, f"{abs(hash((job.harness, job.fn, job.name)))}.json")
        env = dict(os.environ)
        env.update({k: str(v) for k, v in job.env.items()})
        env["PYTHONPATH"] = VERIF_ROOT
        env["VERIF_TWIN_DIR"] = self.workdir
        env["PYTHONDONTWRITEBYTECODE"] = "1"
        env["PYTHONHASHSEED"] = env.get("PYTHONHASHSEED", "0")
        cmd = [PY, "-m", "lib.xh_worker", os.path.join(VERIF_ROOT, job.harness), job.fn,
               str(job.timeout), out]
        t0 = time.time()
        try:
            p = subprocess.run(cmd, cwd=VERIF_ROOT, env=env, capture_output=True, text=True,
                               timeout=job.timeout * 2 + 180)
            tail = (p.stdout + p.stderr)[-2000:]
        except subprocess.TimeoutExpired:
            return {"verdict": "not_confirmed", "error": "worker wall-clock cap hit",
                    "wall_s": time.time() - t0, "paths": 0}
        if not os.path.exists(out):
            return {"verdict": "error", "error": "worker wrote no result: " + tail,
                    "wall_s": time.time() - t0, "paths": 0}
        with open(out) as f:
            rec = json.load(f)
        return rec

    def replay(self, harness: str, call: str, env: dict | None = None, tag: str = "cx") -> tuple[bool | None, str]:
        """Write a replay script and run it natively. Returns (reproduced, path)."""
        h = hashlib.sha256((harness + call).encode()).hexdigest()[:10]
        path = os.path.join(VERIF_ROOT, "replays", f"{self.prop}_{tag}_{h}.py")
        from lib.replay import write_replay

        write_replay(path, self.prop, os.path.join(VERIF_ROOT, harness), call,
                     note=f"harness {harness}", env=env)
        e = dict(os.environ)
        e.update({k: str(v) for k, v in (env or {}).items()})
        e["PYTHONPATH"] = VERIF_ROOT
        e["PYTHONDONTWRITEBYTECODE"] = "1"
        try:
            p = subprocess.run([PY, path], cwd=VERIF_ROOT, env=e, capture_output=True, text=True,
                               timeout=300)
        except subprocess.TimeoutExpired:
            return None, path
        if p.returncode == 1:
            return True, path
        if p.returncode == 0:
            return False, path
        if p.returncode == 2:
            return "inconclusive", path
        self.notes.append(f"replay {path} broken: {(p.stdout + p.stderr)[-500:]}")
        return None, path

    def crosshair(self, jobs: list[Job]) -> list[Obligation]:
        """Run CrossHair conditions in parallel; replay counterexamples; classify."""
        res: list[Obligation] = []
        with cf.ThreadPoolExecutor(max_workers=self.par) as ex:
            futs = {ex.submit(self._run_worker, j): j for j in jobs}
            for fut in cf.as_completed(futs):
                j = futs[fut]
                rec = fut.result()
                res.append(self._classify(j, rec))
        res.sort(key=lambda o: o.name)
        self.obligations.extend(res)
        return res

    def _classify(self, j: Job, rec: dict) -> Obligation:
        v = rec.get("verdict", "error")
        ob = Obligation(name=j.ident, engine="crosshair", verdict=v, role=j.role,
                        bounds={"pre": rec.get("pre"), "signature": rec.get("signature"),
                                "per_condition_timeout_s": j.timeout, **({"env": j.env} if j.env else {})},
                        paths=int(rec.get("paths", 0) or 0), wall_s=float(rec.get("wall_s", 0) or 0),
                        solver_s=float(rec.get("solver_wall_s", 0) or 0))
        twin = rec.get("twin")
        if twin:
            ob.detail["reachability_twin"] = twin
        if v == "error":
            ob.detail["error"] = rec.get("error")
            self.harness_errors.append(f"{j.ident}: {str(rec.get('error'))[-600:]}")
            return ob
        if j.expect == "counterexample":
            return self._classify_witness(j, rec, ob, twin)
        if twin and twin["verdict"] != "reachable" and v != "counterexample":
            # harness never reaches its assertion: whatever it says is vacuous
            if v == "confirmed":
                ob.verdict = "vacuous"
                self.harness_errors.append(f"{j.ident}: vacuous (twin verdict {twin['verdict']})")
            return ob
        if v == "counterexample":
            cxs = rec.get("counterexamples") or []
            cx = cxs[0] if cxs else {}
            call = cx.get("call")
            ob.detail["counterexample"] = cx
            if not call:
                ob.verdict = "error"
                self.harness_errors.append(f"{j.ident}: counterexample without call: {cx}")
                return ob
            ok, path = self.replay(j.harness, call, j.env,
                                   tag="kf" if j.role.startswith("finding:") else "cx")
            ob.detail["replay"] = {"path": path, "reproduced": ok}
            if ok is not True and j.session_call:
                ok2, path2 = self.replay(j.harness, j.session_call, j.env, tag="cx")
                ob.detail["session_replay"] = {"path": path2, "reproduced": ok2}
                if ok2 is True:
                    ok, path, call = True, path2, f"{j.session_call} (the failing case {call} reproduces only after the earlier cases of the same session: state is kept between calls)"
            if ok is not True:
                ob.verdict = "error"
                self.harness_errors.append(
                    f"{j.ident}: counterexample {call} does not reproduce natively ({ok}); harness/encoding bug")
                return ob
            what = f"{j.ident} fails for {call}: {cx.get('message', '')[:300]}"
            if j.role.startswith("finding:"):
                key = j.role.split(":", 1)[1]
                if key in self.known:
                    ob.verdict = "known_finding"
                    self.known_hits.append({"key": key, "what": self.known[key].get("what", what),
                                            "witness": call, "replay": path})
                else:
                    # region probe for something not (or no longer) listed as known: a real violation
                    self.violations.append({"what": what, "replay": path, "key": key})
            else:
                self.violations.append({"what": what, "replay": path})
            self.samples.append({"obligation": j.ident, "counterexample": call})
        return ob

    def _classify_witness(self, j: Job, rec: dict, ob: Obligation, twin) -> Obligation:
        v = rec.get("verdict")
        if v == "counterexample":
            cx = (rec.get("counterexamples") or [{}])[0]
            call = cx.get("call")
            ok, path = (self.replay(j.harness, call, j.env, tag="wit") if call else (None, ""))
            ob.detail["witness"] = {"call": call, "replay": path, "reproduced": ok}
            if ok is True:
                ob.verdict = "confirmed"
                self.samples.append({"obligation": j.ident, "witness": call})
            else:
                ob.verdict = "error"
                self.harness_errors.append(f"{j.ident}: witness {call} does not reproduce natively")
            return ob
        if v == "confirmed":
            if twin and twin["verdict"] != "reachable":
                ob.verdict = "vacuous"
                self.harness_errors.append(f"{j.ident}: vacuous (twin verdict {twin['verdict']})")
                return ob
            ok, path = self.replay(j.harness, j.exhaustive_call, j.env, tag="cx")
            ob.detail["exhaustive_replay"] = {"path": path, "reproduced": ok}
            if ok is True:
                ob.verdict = "counterexample"
                self.violations.append({"what": f"{j.ident}: no witness exists and the search was complete ({j.note})", "replay": path})
            elif ok == "inconclusive":
                ob.verdict = "not_confirmed"      # no witness within the bound, but longer paths exist: nothing can be concluded
            else:
                ob.verdict = "error"
                self.harness_errors.append(f"{j.ident}: solver found no witness but the native enumeration disagrees ({ok})")
            return ob
        return ob

    # ------------------------------------------------------------------ generic obligations
    def add(self, ob: Obligation) -> Obligation:
        self.obligations.append(ob)
        return ob

    def violation(self, what: str, replay: str, key: str | None = None) -> None:
        self.violations.append({"what": what, "replay": replay, "key": key})

    def known_hit(self, key: str, what: str, witness: Any = None, replay: str | None = None) -> None:
        self.known_hits.append({"key": key, "what": what, "witness": witness, "replay": replay})

    def write_script(self, name: str, text: str) -> str:
        path = os.path.join(VERIF_ROOT, "replays", name)
        os.makedirs(os.path.dirname(path), exist_ok=True)
        with open(path, "w") as f:
            f.write(text)
        return path

    # ------------------------------------------------------------------ finish
    def finish(self, level: str, rule: str, explanation: str, checker_cmd: str = "",
               trusted_base: list[str] | None = None, extra_cov: dict | None = None) -> int:
        obs = self.obligations
        n_conf = sum(o.verdict == "confirmed" for o in obs)
        n_cx = sum(o.verdict in ("counterexample", "known_finding") for o in obs)
        n_inc = sum(o.verdict in ("not_confirmed", "unable_to_meet_precondition", "unknown") for o in obs)
        n_err = sum(o.verdict in ("error", "vacuous") for o in obs)
        paths = sum(o.paths for o in obs)
        evaluations = paths + sum(1 for o in obs if o.engine != "crosshair")
        conclusive = [o for o in obs if o.conclusive()]
        samples = list(self.samples)[:12]
        for o in obs[:6]:
            samples.append({"obligation": o.name, "engine": o.engine, "verdict": o.verdict,
                            "bounds": o.bounds, "paths": o.paths})
        cov = {
            "evaluations": max(evaluations, 0),
            "distinct_nontrivial": len({o.name for o in conclusive}) if not extra_cov or "distinct_nontrivial" not in extra_cov else extra_cov["distinct_nontrivial"],
            "rule": rule,
            "samples": samples,
            "obligations": len(obs),
            "discharged": n_conf,
            "refuted": n_cx,
            "inconclusive": n_inc,
            "harness_errors": n_err,
            "paths_explored": paths,
            "solver_time_s": round(sum(o.solver_s or o.wall_s for o in obs), 2),
            "explanation": explanation,
            "checker_cmd": checker_cmd or f"./check {self.prop} --tier {self.tier}",
            "trusted_base": trusted_base or [],
            "functions_encoded": self.functions_encoded,
            "bounds": self.bounds,
            "outside_claim": self.outside_claim,
            "per_obligation": [
                {"name": o.name, "engine": o.engine, "role": o.role, "verdict": o.verdict,
                 "paths": o.paths, "wall_s": round(o.wall_s, 2), "bounds": o.bounds,
                 **({"detail": o.detail} if o.detail else {})}
                for o in obs
            ],
            "known_findings_hit": self.known_hits,
            "notes": self.notes,
            "exhaustive": False,
            "repo_root": REPO_ROOT,
        }
        if extra_cov:
            cov.update(extra_cov)
        # unlisted violations
        unlisted, _seen = [], set()
        for v in self.violations:
            if v["replay"] not in _seen:
                _seen.add(v["replay"])
                unlisted.append(v)
        ev = {
            "property_id": self.prop,
            "tier": self.tier,
            "seed": self.seed,
            "level": level,
            "coverage": cov,
            "assumptions": self.assumptions,
            "wall_s": round(time.time() - self.t0, 2),
            "violations": len(unlisted),
        }
        evdir = os.environ.get("VERIF_EVIDENCE_DIR") or os.path.join(VERIF_ROOT, "evidence")  # redirected by private self-tests only
        os.makedirs(evdir, exist_ok=True)
        with open(os.path.join(evdir, f"{self.prop}.json"), "w") as f:
            json.dump(ev, f, indent=1, default=str)
        _printed = set()
        for k in self.known_hits:
            if k["key"] not in _printed:
                _printed.add(k["key"])
                print(f"KNOWN-FINDING: property={self.prop} {k['key']}: {k['what']}")
        print(f"[{self.prop} {self.tier}] obligations={len(obs)} confirmed={n_conf} refuted={n_cx} "
              f"inconclusive={n_inc} errors={n_err} paths={paths} wall={ev['wall_s']}s")
        for o in obs:
            if o.verdict not in ("confirmed",):
                print(f"  - {o.name}: {o.verdict}" + (f" ({o.role})" if o.role != "main" else ""))
        self.cleanup()
        if unlisted:
            for v in unlisted:
                print(f"VIOLATION property={self.prop} replay={v['replay']}")
                print(f"  {v['what']}")
            return EXIT_VIOLATION
        if self.harness_errors:
            shown = set()
            for e in self.harness_errors:
                key = e.split(":", 1)[-1][-200:]
                if key in shown:
                    continue
                shown.add(key)
                print(f"HARNESS-ERROR {self.prop}: {e}", file=sys.stderr)
            return EXIT_HARNESS
        if not conclusive:
            print(f"HARNESS-ERROR {self.prop}: no obligation was conclusively decided", file=sys.stderr)
            return EXIT_HARNESS
        return EXIT_OK
