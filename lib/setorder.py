"""Make the iteration order of every set inside /repo's compiler an explicit input (C10).

An import hook recompiles the modules of `guppylang_internals` from their *current* source with three rewrites:
    for x in E: ...            ->  for x in _vo_iter(E, site): ...          (also comprehension generators)
    iter(E) / list(E) / tuple(E) / *E   ->  the same over _vo_iter(E, site)
    E.pop()                    ->  _vo_pop(E, site)
At run time `_vo_iter` returns E untouched unless E is a set / frozenset / dict-keys set operation result; for those it
asks the active Controller for an order.  Everything else is /repo's code, unchanged.  No edit to /repo is needed."""
from __future__ import annotations

import ast
import importlib.abc
import importlib.machinery
import os
import sys
from collections.abc import KeysView, ItemsView

SITES: dict[int, tuple[str, int, str]] = {}       # site id -> (file, line, kind)
SEEN_SET_AT: dict[int, int] = {}                   # site id -> number of times a real set (len >= 2) arrived there
_CTRL = None


def _is_setlike(x) -> bool:
    return isinstance(x, (set, frozenset)) or (isinstance(x, (KeysView, ItemsView)) and False)


def _key(e):
    idx = getattr(e, "idx", None)
    if isinstance(idx, int):
        return (0, idx, "")
    if isinstance(e, (str, int)):
        return (1, 0, repr(e)) if isinstance(e, str) else (1, e, "")
    return (2, 0, repr(e))


def canonical(xs):
    try:
        return sorted(xs, key=_key)
    except TypeError:
        return sorted(xs, key=repr)


class Controller:
    """Decides the order in which a set's elements are produced.  `choose(n)` returns an int in range(n)."""

    def __init__(self, choose=None, max_picks=0, site_filter=None):
        self.choose = choose
        self.site_filter = site_filter
        self.max_picks = max_picks
        self.used = 0
        self.log: list = []

    def order(self, xs, site):
        xs = canonical(xs)
        if len(xs) < 2:
            return xs
        SEEN_SET_AT[site] = SEEN_SET_AT.get(site, 0) + 1
        out = []
        rest = list(xs)
        while rest:
            if (len(rest) > 1 and self.choose is not None and self.used < self.max_picks
                    and (self.site_filter is None or self.site_filter(site))):
                k = self.choose(len(rest))
                self.used += 1
                self.log.append((site, len(rest), k))
            else:
                k = 0
            out.append(rest.pop(k))
        return out


def set_controller(c):
    global _CTRL
    _CTRL = c


def _vo_iter(x, site):
    if _CTRL is not None and _is_setlike(x):
        return _CTRL.order(x, site)
    return x


def _vo_pop(x, site):
    if _CTRL is not None and isinstance(x, set):
        e = _CTRL.order(x, site)[0]
        x.remove(e)
        return e
    return x.pop()


class _Rewrite(ast.NodeTransformer):
    def __init__(self, filename):
        self.filename = filename

    def _site(self, node, kind):
        sid = len(SITES)
        SITES[sid] = (self.filename, getattr(node, "lineno", 0), kind)
        return ast.Constant(sid)

    def _wrap(self, e, node, kind):
        return ast.copy_location(ast.Call(func=ast.Name(id="_vo_iter", ctx=ast.Load()), args=[e, self._site(node, kind)], keywords=[]), e)

    def visit_For(self, node):
        self.generic_visit(node)
        node.iter = self._wrap(node.iter, node, "for")
        return node

    def visit_comprehension(self, node):
        self.generic_visit(node)
        node.iter = self._wrap(node.iter, node.iter, "comprehension")
        return node

    def visit_Starred(self, node):
        self.generic_visit(node)
        if isinstance(node.ctx, ast.Load):
            node.value = self._wrap(node.value, node, "star")
        return node

    def visit_Call(self, node):
        self.generic_visit(node)
        f = node.func
        if isinstance(f, ast.Name) and f.id in ("iter", "list", "tuple", "enumerate", "zip", "map", "filter", "reversed") and node.args and not node.keywords:
            node.args = [a if isinstance(a, ast.Starred) else self._wrap(a, node, f.id + "()") for a in node.args]
        elif isinstance(f, ast.Attribute) and f.attr == "pop" and not node.args and not node.keywords:
            return ast.copy_location(ast.Call(func=ast.Name(id="_vo_pop", ctx=ast.Load()), args=[f.value, self._site(node, "pop()")], keywords=[]), node)
        elif isinstance(f, ast.Attribute) and f.attr == "join" and len(node.args) == 1 and not isinstance(node.args[0], ast.Starred):
            node.args = [self._wrap(node.args[0], node, "join()")]
        return node


class _Loader(importlib.machinery.SourceFileLoader):
    def source_to_code(self, data, path, *, _optimize=-1):
        tree = ast.parse(data, filename=path)
        tree = _Rewrite(path).visit(tree)
        # make the helpers visible without touching the module's import list
        inject = ast.parse("from lib.setorder import _vo_iter, _vo_pop").body
        pos = 0
        if tree.body and isinstance(tree.body[0], ast.Expr) and isinstance(getattr(tree.body[0], "value", None), ast.Constant):
            pos = 1
        while pos < len(tree.body) and isinstance(tree.body[pos], ast.ImportFrom) and tree.body[pos].module == "__future__":
            pos += 1
        tree.body[pos:pos] = inject
        ast.fix_missing_locations(tree)
        return compile(tree, path, "exec", dont_inherit=True, optimize=_optimize)


class _Finder(importlib.abc.MetaPathFinder):
    def __init__(self, prefixes, root):
        self.prefixes, self.root = prefixes, root

    def find_spec(self, fullname, path, target=None):
        if not any(fullname == p or fullname.startswith(p + ".") for p in self.prefixes):
            return None
        spec = importlib.machinery.PathFinder.find_spec(fullname, path)
        if spec is None or not spec.origin or not spec.origin.endswith(".py"):
            return spec
        if not os.path.realpath(spec.origin).startswith(self.root):
            return spec
        spec.loader = _Loader(fullname, spec.origin)
        return spec


def install(prefixes=("guppylang_internals",), root=None):
    """Call before the first import of the packages to instrument."""
    from lib import repo_env

    root = root or repo_env.REPO_ROOT
    for p in prefixes:
        if any(m == p or m.startswith(p + ".") for m in sys.modules):
            raise RuntimeError(f"{p} already imported; install the set-order hook first")
    sys.dont_write_bytecode = True
    sys.meta_path.insert(0, _Finder(tuple(prefixes), os.path.realpath(root)))
