"""E3 — SMT encodings of the numeric tower generated from /repo's *live* binding tables.

For every dunder of int/nat/float/bool the generator reads the definition object the real decorators
created (DEF_STORE.impls[...]) and classifies it:
    op      OpCompiler / BoolOpCompiler / UnwrapOpCompiler -> qualified HUGR op name (by calling the real closure)
    noop    NoopCompiler -> identity
    rev     ReversingChecker -> the direct dunder with swapped arguments
    body    @guppy function -> its AST (translated by a small expression translator)
    dunder  DunderChecker (constructors / builtins) -> the instance method it dispatches to
Each (type, operator) becomes obligations:  HUGR-semantics(term from the binding) == reduce(Python semantics)
over BitVec(64) / Float64 / Bool operands, under the property's definedness conditions.

Two tables are trusted (DESIGN.md section 4): HUGR op semantics (HUGR_BV / HUGR_INT / HUGR_PY) and Python
operator semantics (PY_BV / PY_INT / PY_REF).  validate_tables() cross-checks each z3 term against the
Python reference implementation on random + boundary operands on every run.
"""
from __future__ import annotations

import ast
import inspect
import math
import random
import struct
import textwrap
import time
from dataclasses import dataclass, field

import z3

W = 64
M = 1 << 64
H = 1 << 63
F64 = z3.Float64()
RNE, RTZ, RTN, RTP = z3.RNE(), z3.RTZ(), z3.RTN(), z3.RTP()


# =============================================================================== binding extraction
@dataclass
class Binding:
    ty: str
    name: str
    kind: str  # op | noop | rev | body | dunder | other
    op: str | None = None  # qualified HUGR op name
    unwrap: bool = False
    boolop: bool = False
    target: str | None = None  # rev/dunder: the dunder dispatched to
    fdef: ast.FunctionDef | None = None
    inputs: list[str] = field(default_factory=list)  # guppy type names of the parameters
    output: str = ""
    raw: object = None

    def describe(self) -> str:
        d = {"op": f"op {self.op}", "noop": "noop", "rev": f"reversed {self.target}", "body": "guppy body",
             "dunder": f"dispatch {self.target}", "other": "other"}[self.kind]
        return f"{self.ty}.{self.name}: {d}"


def _ann(a) -> str:
    if a is None:
        return ""
    if isinstance(a, ast.Constant):
        return str(a.value)
    return ast.unparse(a)


def extract_bindings() -> dict[tuple[str, str], Binding]:
    import lib.repo_env as RE

    RE.shim()
    import guppylang  # noqa: F401
    import guppylang.std.num as num_mod
    import guppylang.std.bool as bool_mod
    from hugr import tys as ht
    from guppylang_internals.engine import DEF_STORE
    from guppylang_internals.definition.custom import (BoolOpCompiler, NoopCompiler, OpCompiler,
                                                       RawCustomFunctionDef)
    from guppylang_internals.definition.function import RawFunctionDef
    from guppylang_internals.std._internal.checker import DunderChecker, ReversingChecker
    from guppylang_internals.std._internal.compiler.prelude import UnwrapOpCompiler
    from guppylang_internals.tys.builtin import bool_type_def, float_type_def, int_type_def, nat_type_def

    RE.assert_repo(num_mod, bool_mod)
    out: dict[tuple[str, str], Binding] = {}

    def classify(tyname, name, d) -> Binding:
        b = Binding(tyname, name, "other", raw=d)
        pyfn = getattr(d, "python_func", None)
        if pyfn is not None:
            try:
                src = textwrap.dedent(inspect.getsource(inspect.unwrap(pyfn)))
                fd = ast.parse(src).body[0]
                b.fdef = fd
                b.inputs = [_ann(a.annotation) for a in fd.args.args]
                b.output = _ann(fd.returns)
            except (OSError, TypeError, IndexError):
                pass
        if isinstance(d, RawCustomFunctionDef):
            cc, ck = d.call_compiler, d.call_checker
            if isinstance(ck, ReversingChecker):
                b.kind = "rev"
                ck.func = d  # parse_name reads self.func.name
                b.target = ck.parse_name()
            elif isinstance(ck, DunderChecker):
                b.kind, b.target = "dunder", ck.dunder_name
            elif isinstance(cc, NoopCompiler):
                b.kind = "noop"
            elif isinstance(cc, (OpCompiler, BoolOpCompiler, UnwrapOpCompiler)):
                b.kind = "op"
                b.boolop = isinstance(cc, BoolOpCompiler)
                b.unwrap = isinstance(cc, UnwrapOpCompiler)
                o = cc.op(ht.FunctionType([], []), [], None)
                b.op = o.op_def().qualified_name() if hasattr(o, "op_def") else f"{type(o).__name__}:{getattr(o, 'op_name', '?')}"
        elif isinstance(d, RawFunctionDef):
            b.kind = "body"
        return b

    for tdef in (int_type_def, nat_type_def, float_type_def, bool_type_def):
        for name, did in sorted(DEF_STORE.impls[tdef.id].items()):
            out[(tdef.name, name)] = classify(tdef.name, name, DEF_STORE.raw_defs[did])
    for fname in ("abs", "divmod", "pow", "round"):
        g = getattr(num_mod, fname, None)
        if g is not None and hasattr(g, "id"):
            out[("builtin", fname)] = classify("builtin", fname, DEF_STORE.raw_defs[g.id])
    return out


# =============================================================================== HUGR op semantics
def _bv(v):
    return z3.BitVecVal(v % M, W)


def _ext_s(a):
    return z3.SignExt(W, a)


def _ext_u(a):
    return z3.ZeroExt(W, a)


def _floor_divmod_wide(n, m):
    """floor division / modulo of 128-bit signed n by m (any sign, nonzero)."""
    q = n / m  # bvsdiv: truncation
    r = z3.SRem(n, m)  # sign follows dividend
    adj = z3.And(r != 0, (r < 0) != (m < 0))
    return z3.If(adj, q - 1, q), z3.If(adj, r + m, r)


def _lo(x):
    return z3.Extract(W - 1, 0, x)


_IPOW = z3.Function("ipow", z3.BitVecSort(W), z3.BitVecSort(W), z3.BitVecSort(W))
_FPOW = z3.Function("fpow", F64, F64, F64)


def _idivmod_s(a, b):
    # HUGR spec: n signed, m *unsigned*: q*m + r = n, 0 <= r < m
    q, r = _floor_divmod_wide(_ext_s(a), _ext_u(b))
    return _lo(q), _lo(r)


#: name -> (arity, builder over z3 terms, definedness builder or None)
HUGR_BV = {
    "arithmetic.int.iadd": (2, lambda a, b: a + b, None),
    "arithmetic.int.isub": (2, lambda a, b: a - b, None),
    "arithmetic.int.imul": (2, lambda a, b: a * b, None),
    "arithmetic.int.ineg": (1, lambda a: -a, None),
    "arithmetic.int.iabs": (1, lambda a: z3.If(a < 0, -a, a), None),
    "arithmetic.int.iand": (2, lambda a, b: a & b, None),
    "arithmetic.int.ior": (2, lambda a, b: a | b, None),
    "arithmetic.int.ixor": (2, lambda a, b: a ^ b, None),
    "arithmetic.int.inot": (1, lambda a: ~a, None),
    "arithmetic.int.ishl": (2, lambda a, b: z3.If(z3.ULT(b, W), a << b, _bv(0)), None),
    "arithmetic.int.ishr": (2, lambda a, b: z3.If(z3.ULT(b, W), z3.LShR(a, b), _bv(0)), None),
    "arithmetic.int.ieq": (2, lambda a, b: a == b, None),
    "arithmetic.int.ine": (2, lambda a, b: a != b, None),
    "arithmetic.int.ilt_s": (2, lambda a, b: a < b, None),
    "arithmetic.int.ile_s": (2, lambda a, b: a <= b, None),
    "arithmetic.int.igt_s": (2, lambda a, b: a > b, None),
    "arithmetic.int.ige_s": (2, lambda a, b: a >= b, None),
    "arithmetic.int.ilt_u": (2, lambda a, b: z3.ULT(a, b), None),
    "arithmetic.int.ile_u": (2, lambda a, b: z3.ULE(a, b), None),
    "arithmetic.int.igt_u": (2, lambda a, b: z3.UGT(a, b), None),
    "arithmetic.int.ige_u": (2, lambda a, b: z3.UGE(a, b), None),
    "arithmetic.int.idiv_s": (2, lambda a, b: _idivmod_s(a, b)[0], lambda a, b: b != 0),
    "arithmetic.int.imod_s": (2, lambda a, b: _idivmod_s(a, b)[1], lambda a, b: b != 0),
    "arithmetic.int.idivmod_s": (2, lambda a, b: _idivmod_s(a, b), lambda a, b: b != 0),
    "arithmetic.int.idiv_u": (2, lambda a, b: z3.UDiv(a, b), lambda a, b: b != 0),
    "arithmetic.int.imod_u": (2, lambda a, b: z3.URem(a, b), lambda a, b: b != 0),
    "arithmetic.int.idivmod_u": (2, lambda a, b: (z3.UDiv(a, b), z3.URem(a, b)), lambda a, b: b != 0),
    "arithmetic.int.ipow": (2, lambda a, b: _IPOW(a, b), None),
    "arithmetic.int.is_to_u": (1, lambda a: a, lambda a: a >= 0),
    "arithmetic.int.iu_to_s": (1, lambda a: a, lambda a: a >= 0),
    "arithmetic.conversions.convert_s": (1, lambda a: z3.fpSignedToFP(RNE, a, F64), None),
    "arithmetic.conversions.convert_u": (1, lambda a: z3.fpUnsignedToFP(RNE, a, F64), None),
    "arithmetic.conversions.trunc_s": (1, lambda f: z3.fpToSBV(RTZ, f, z3.BitVecSort(W)),
                                       lambda f: z3.And(z3.Not(z3.fpIsNaN(f)), z3.Not(z3.fpIsInf(f)),
                                                        z3.fpLT(f, z3.FPVal(2.0 ** 63, F64)), z3.fpGEQ(f, z3.FPVal(-(2.0 ** 63), F64)))),
    "arithmetic.conversions.trunc_u": (1, lambda f: z3.fpToUBV(RTZ, f, z3.BitVecSort(W)),
                                       lambda f: z3.And(z3.Not(z3.fpIsNaN(f)), z3.Not(z3.fpIsInf(f)),
                                                        # (negative non-integral inputs in (-1, 0) truncate to 0 on paper, but the installed emulator
                                                        #  rejects every negative input: the region where the two readings differ is left undefined)
                                                        z3.fpLT(f, z3.FPVal(2.0 ** 64, F64)), z3.fpGEQ(f, z3.FPVal(0.0, F64)))),
    "arithmetic.float.fadd": (2, lambda a, b: z3.fpAdd(RNE, a, b), None),
    "arithmetic.float.fsub": (2, lambda a, b: z3.fpSub(RNE, a, b), None),
    "arithmetic.float.fmul": (2, lambda a, b: z3.fpMul(RNE, a, b), None),
    "arithmetic.float.fdiv": (2, lambda a, b: z3.fpDiv(RNE, a, b), None),
    "arithmetic.float.fneg": (1, lambda a: z3.fpNeg(a), None),
    "arithmetic.float.fabs": (1, lambda a: z3.fpAbs(a), None),
    "arithmetic.float.ffloor": (1, lambda a: z3.fpRoundToIntegral(RTN, a), None),
    "arithmetic.float.fceil": (1, lambda a: z3.fpRoundToIntegral(RTP, a), None),
    "arithmetic.float.fpow": (2, lambda a, b: _FPOW(a, b), None),
    "arithmetic.float.feq": (2, lambda a, b: z3.fpEQ(a, b), None),
    "arithmetic.float.fne": (2, lambda a, b: z3.Not(z3.fpEQ(a, b)), None),
    "arithmetic.float.flt": (2, lambda a, b: z3.fpLT(a, b), None),
    "arithmetic.float.fle": (2, lambda a, b: z3.fpLEQ(a, b), None),
    "arithmetic.float.fgt": (2, lambda a, b: z3.fpGT(a, b), None),
    "arithmetic.float.fge": (2, lambda a, b: z3.fpGEQ(a, b), None),
    "tket.bool.and": (2, lambda a, b: z3.And(a, b), None),
    "tket.bool.or": (2, lambda a, b: z3.Or(a, b), None),
    "tket.bool.xor": (2, lambda a, b: z3.Xor(a, b), None),
    "tket.bool.eq": (2, lambda a, b: a == b, None),
    "tket.bool.not": (1, lambda a: z3.Not(a), None),
}


# ---- the same ops on Python values (patterns as unsigned ints for int/nat, Python floats, bools).
def s64(u):
    u %= M
    return u - M if u >= H else u


def _py_idivmod_s(a, b):
    n, m = s64(a), b % M
    if m == 0:
        raise ZeroDivisionError
    return (n // m) % M, (n % m) % M


def _f2i(f, signed):
    if f != f or f in (float("inf"), float("-inf")):
        raise OverflowError
    if not signed and f < 0:
        raise OverflowError
    t = math.trunc(f)
    if signed and not (-H <= t < H) or not signed and not (0 <= t < M):
        raise OverflowError
    return t % M


HUGR_PY = {
    "arithmetic.int.iadd": lambda a, b: (a + b) % M, "arithmetic.int.isub": lambda a, b: (a - b) % M,
    "arithmetic.int.imul": lambda a, b: (a * b) % M, "arithmetic.int.ineg": lambda a: (-a) % M,
    "arithmetic.int.iabs": lambda a: abs(s64(a)) % M,
    "arithmetic.int.iand": lambda a, b: a & b, "arithmetic.int.ior": lambda a, b: a | b,
    "arithmetic.int.ixor": lambda a, b: a ^ b, "arithmetic.int.inot": lambda a: (~a) % M,
    "arithmetic.int.ishl": lambda a, b: (a << b) % M if b < W else 0,
    "arithmetic.int.ishr": lambda a, b: (a % M) >> b if b < W else 0,
    "arithmetic.int.ieq": lambda a, b: a == b, "arithmetic.int.ine": lambda a, b: a != b,
    "arithmetic.int.ilt_s": lambda a, b: s64(a) < s64(b), "arithmetic.int.ile_s": lambda a, b: s64(a) <= s64(b),
    "arithmetic.int.igt_s": lambda a, b: s64(a) > s64(b), "arithmetic.int.ige_s": lambda a, b: s64(a) >= s64(b),
    "arithmetic.int.ilt_u": lambda a, b: a < b, "arithmetic.int.ile_u": lambda a, b: a <= b,
    "arithmetic.int.igt_u": lambda a, b: a > b, "arithmetic.int.ige_u": lambda a, b: a >= b,
    "arithmetic.int.idiv_s": lambda a, b: _py_idivmod_s(a, b)[0], "arithmetic.int.imod_s": lambda a, b: _py_idivmod_s(a, b)[1],
    "arithmetic.int.idivmod_s": _py_idivmod_s,
    "arithmetic.int.idiv_u": lambda a, b: a // b, "arithmetic.int.imod_u": lambda a, b: a % b,
    "arithmetic.int.idivmod_u": lambda a, b: (a // b, a % b),
    "arithmetic.int.ipow": lambda a, b: pow(a, b, M),
    "arithmetic.int.is_to_u": lambda a: a, "arithmetic.int.iu_to_s": lambda a: a,
    "arithmetic.conversions.convert_s": lambda a: float(s64(a)), "arithmetic.conversions.convert_u": lambda a: float(a),
    "arithmetic.conversions.trunc_s": lambda f: _f2i(f, True), "arithmetic.conversions.trunc_u": lambda f: _f2i(f, False),
    "arithmetic.float.fadd": lambda a, b: a + b, "arithmetic.float.fsub": lambda a, b: a - b,
    "arithmetic.float.fmul": lambda a, b: a * b,
    "arithmetic.float.fdiv": lambda a, b: _fdiv(a, b),
    "arithmetic.float.fneg": lambda a: -a, "arithmetic.float.fabs": lambda a: abs(a),
    "arithmetic.float.ffloor": lambda a: math.copysign(float(math.floor(a)), a) if math.isfinite(a) and math.floor(a) == 0 else (float(math.floor(a)) if math.isfinite(a) else a),
    "arithmetic.float.fceil": lambda a: math.copysign(float(math.ceil(a)), a) if math.isfinite(a) and math.ceil(a) == 0 else (float(math.ceil(a)) if math.isfinite(a) else a),
    "arithmetic.float.feq": lambda a, b: a == b, "arithmetic.float.fne": lambda a, b: a != b,
    "arithmetic.float.flt": lambda a, b: a < b, "arithmetic.float.fle": lambda a, b: a <= b,
    "arithmetic.float.fgt": lambda a, b: a > b, "arithmetic.float.fge": lambda a, b: a >= b,
    "arithmetic.float.fpow": lambda a, b: a ** b,
    "tket.bool.and": lambda a, b: a and b, "tket.bool.or": lambda a, b: a or b,
    "tket.bool.xor": lambda a, b: a != b, "tket.bool.eq": lambda a, b: a == b, "tket.bool.not": lambda a: not a,
}


def _fdiv(a, b):
    if b == 0.0:
        if a != a or a == 0.0:
            return float("nan")
        return math.copysign(float("inf"), a) * math.copysign(1.0, b)
    return a / b


# =============================================================================== Python operator semantics
# value views:  int -> signed view of the 64-bit pattern, nat -> unsigned view, float -> binary64, bool.
def _py_floordivmod_s(a, b):
    q, r = _floor_divmod_wide(_ext_s(a), _ext_s(b))
    return _lo(q), _lo(r)


#: (type, dunder) -> (builder over z3 terms giving Python's result reduced to 64 bit, definedness, result kind)
PY_BV = {
    ("int", "__add__"): (lambda a, b: a + b, None), ("int", "__sub__"): (lambda a, b: a - b, None),
    ("int", "__mul__"): (lambda a, b: a * b, None), ("int", "__neg__"): (lambda a: -a, None),
    ("int", "__pos__"): (lambda a: a, None), ("int", "__abs__"): (lambda a: z3.If(a < 0, -a, a), None),
    ("int", "__and__"): (lambda a, b: a & b, None), ("int", "__or__"): (lambda a, b: a | b, None),
    ("int", "__xor__"): (lambda a, b: a ^ b, None), ("int", "__invert__"): (lambda a: -a - 1, None),
    ("int", "__lshift__"): (lambda a, b: a << b, lambda a, b: z3.ULT(b, W)),
    ("int", "__rshift__"): (lambda a, b: a >> b, lambda a, b: z3.ULT(b, W)),  # arithmetic shift = floor(a / 2^b)
    ("int", "__floordiv__"): (lambda a, b: _py_floordivmod_s(a, b)[0], lambda a, b: b != 0),
    ("int", "__mod__"): (lambda a, b: _py_floordivmod_s(a, b)[1], lambda a, b: b != 0),
    ("int", "__divmod__"): (lambda a, b: _py_floordivmod_s(a, b), lambda a, b: b != 0),
    ("int", "__eq__"): (lambda a, b: a == b, None), ("int", "__ne__"): (lambda a, b: a != b, None),
    ("int", "__lt__"): (lambda a, b: a < b, None), ("int", "__le__"): (lambda a, b: a <= b, None),
    ("int", "__gt__"): (lambda a, b: a > b, None), ("int", "__ge__"): (lambda a, b: a >= b, None),
    ("int", "__bool__"): (lambda a: a != 0, None),
    ("int", "__int__"): (lambda a: a, None),
    ("int", "__nat__"): (lambda a: a, lambda a: a >= 0),
    ("int", "__float__"): (lambda a: z3.fpSignedToFP(RNE, a, F64), None),
    ("int", "__pow__"): (lambda a, b: _IPOW(a, b), lambda a, b: b >= 0),  # low 64 bits of a**b, b >= 0
    ("int", "__truediv__"): (lambda a, b: z3.fpDiv(RNE, z3.fpSignedToFP(RNE, a, F64), z3.fpSignedToFP(RNE, b, F64)),
                             lambda a, b: z3.And(b != 0, a <= (1 << 53), a >= -(1 << 53), b <= (1 << 53), b >= -(1 << 53))),
    ("nat", "__add__"): (lambda a, b: a + b, None), ("nat", "__sub__"): (lambda a, b: a - b, None),
    ("nat", "__mul__"): (lambda a, b: a * b, None), ("nat", "__pos__"): (lambda a: a, None),
    ("nat", "__abs__"): (lambda a: a, None),
    ("nat", "__and__"): (lambda a, b: a & b, None), ("nat", "__or__"): (lambda a, b: a | b, None),
    ("nat", "__xor__"): (lambda a, b: a ^ b, None), ("nat", "__invert__"): (lambda a: -a - 1, None),
    ("nat", "__lshift__"): (lambda a, b: a << b, lambda a, b: z3.ULT(b, W)),
    ("nat", "__rshift__"): (lambda a, b: z3.LShR(a, b), lambda a, b: z3.ULT(b, W)),
    ("nat", "__floordiv__"): (lambda a, b: z3.UDiv(a, b), lambda a, b: b != 0),
    ("nat", "__mod__"): (lambda a, b: z3.URem(a, b), lambda a, b: b != 0),
    ("nat", "__divmod__"): (lambda a, b: (z3.UDiv(a, b), z3.URem(a, b)), lambda a, b: b != 0),
    ("nat", "__eq__"): (lambda a, b: a == b, None), ("nat", "__ne__"): (lambda a, b: a != b, None),
    ("nat", "__lt__"): (lambda a, b: z3.ULT(a, b), None), ("nat", "__le__"): (lambda a, b: z3.ULE(a, b), None),
    ("nat", "__gt__"): (lambda a, b: z3.UGT(a, b), None), ("nat", "__ge__"): (lambda a, b: z3.UGE(a, b), None),
    ("nat", "__bool__"): (lambda a: a != 0, None),
    ("nat", "__int__"): (lambda a: a, None), ("nat", "__nat__"): (lambda a: a, None),
    ("nat", "__float__"): (lambda a: z3.fpUnsignedToFP(RNE, a, F64), None),
    ("nat", "__pow__"): (lambda a, b: _IPOW(a, b), None),
    ("nat", "__truediv__"): (lambda a, b: z3.fpDiv(RNE, z3.fpUnsignedToFP(RNE, a, F64), z3.fpUnsignedToFP(RNE, b, F64)),
                             lambda a, b: z3.And(b != 0, z3.ULE(a, 1 << 53), z3.ULE(b, 1 << 53))),
    ("float", "__add__"): (lambda a, b: z3.fpAdd(RNE, a, b), None), ("float", "__sub__"): (lambda a, b: z3.fpSub(RNE, a, b), None),
    ("float", "__mul__"): (lambda a, b: z3.fpMul(RNE, a, b), None),
    ("float", "__truediv__"): (lambda a, b: z3.fpDiv(RNE, a, b), lambda a, b: z3.Not(z3.fpIsZero(b))),
    ("float", "__neg__"): (lambda a: z3.fpNeg(a), None), ("float", "__pos__"): (lambda a: a, None),
    ("float", "__abs__"): (lambda a: z3.fpAbs(a), None),
    ("float", "__eq__"): (lambda a, b: z3.fpEQ(a, b), None), ("float", "__ne__"): (lambda a, b: z3.Not(z3.fpEQ(a, b)), None),
    ("float", "__lt__"): (lambda a, b: z3.fpLT(a, b), None), ("float", "__le__"): (lambda a, b: z3.fpLEQ(a, b), None),
    ("float", "__gt__"): (lambda a, b: z3.fpGT(a, b), None), ("float", "__ge__"): (lambda a, b: z3.fpGEQ(a, b), None),
    ("float", "__bool__"): (lambda a: z3.Not(z3.fpIsZero(a)), None),
    ("float", "__float__"): (lambda a: a, None),
    ("float", "__int__"): (lambda f: z3.fpToSBV(RTZ, f, z3.BitVecSort(W)), HUGR_BV["arithmetic.conversions.trunc_s"][2]),
    ("float", "__nat__"): (lambda f: z3.fpToUBV(RTZ, f, z3.BitVecSort(W)), HUGR_BV["arithmetic.conversions.trunc_u"][2]),
    ("float", "__pow__"): (lambda a, b: _FPOW(a, b), None),
    ("bool", "__and__"): (lambda a, b: z3.And(a, b), None), ("bool", "__or__"): (lambda a, b: z3.Or(a, b), None),
    ("bool", "__xor__"): (lambda a, b: z3.Xor(a, b), None), ("bool", "__eq__"): (lambda a, b: a == b, None),
    ("bool", "__ne__"): (lambda a, b: a != b, None), ("bool", "__bool__"): (lambda a: a, None),
    ("bool", "__int__"): (lambda a: z3.If(a, _bv(1), _bv(0)), None),
    ("bool", "__nat__"): (lambda a: z3.If(a, _bv(1), _bv(0)), None),
}

#: the same as concrete Python on *values* (int: signed value, nat: unsigned value); results are values too
PY_REF = {
    "__add__": lambda a, b: a + b, "__sub__": lambda a, b: a - b, "__mul__": lambda a, b: a * b,
    "__neg__": lambda a: -a, "__pos__": lambda a: +a, "__abs__": lambda a: abs(a),
    "__and__": lambda a, b: a & b, "__or__": lambda a, b: a | b, "__xor__": lambda a, b: a ^ b,
    "__invert__": lambda a: ~a, "__lshift__": lambda a, b: a << b, "__rshift__": lambda a, b: a >> b,
    "__floordiv__": lambda a, b: a // b, "__mod__": lambda a, b: a % b, "__divmod__": lambda a, b: divmod(a, b),
    "__truediv__": lambda a, b: a / b, "__pow__": lambda a, b: a ** b,
    "__eq__": lambda a, b: a == b, "__ne__": lambda a, b: a != b, "__lt__": lambda a, b: a < b,
    "__le__": lambda a, b: a <= b, "__gt__": lambda a, b: a > b, "__ge__": lambda a, b: a >= b,
    "__bool__": lambda a: bool(a), "__int__": lambda a: int(a), "__nat__": lambda a: int(a),
    "__float__": lambda a: float(a),
}

# integer (LIA) encodings for the division family: operands are 64-bit patterns as Ints in [0, 2^64)
def _Sv(u):
    return z3.If(u >= H, u - M, u)


def _ifloordiv(x, y):
    return z3.If(y > 0, x / y, (-x) / (-y))


def _imod(x, y):
    return z3.If(y > 0, x % y, -((-x) % (-y)))


HUGR_INT = {
    "arithmetic.int.idiv_s": lambda a, b: (_Sv(a) / b) % M,
    "arithmetic.int.imod_s": lambda a, b: (_Sv(a) % b) % M,
    "arithmetic.int.idivmod_s": lambda a, b: ((_Sv(a) / b) % M, (_Sv(a) % b) % M),
    "arithmetic.int.idiv_u": lambda a, b: a / b,
    "arithmetic.int.imod_u": lambda a, b: a % b,
    "arithmetic.int.idivmod_u": lambda a, b: (a / b, a % b),
}
PY_INT = {
    ("int", "__floordiv__"): lambda a, b: _ifloordiv(_Sv(a), _Sv(b)) % M,
    ("int", "__mod__"): lambda a, b: _imod(_Sv(a), _Sv(b)) % M,
    ("int", "__divmod__"): lambda a, b: (_ifloordiv(_Sv(a), _Sv(b)) % M, _imod(_Sv(a), _Sv(b)) % M),
    ("nat", "__floordiv__"): lambda a, b: a / b,
    ("nat", "__mod__"): lambda a, b: a % b,
    ("nat", "__divmod__"): lambda a, b: (a / b, a % b),
}

# which operators the property lists (ceil/floor/round/trunc dunders are not in the quantifier)
OUTSIDE = {"__ceil__", "__floor__", "__round__", "__trunc__", "__new__", "__pow_impl"}


def sort_of(t: str):
    return {"int": z3.BitVecSort(W), "nat": z3.BitVecSort(W), "float": F64, "bool": z3.BoolSort()}[t]


# =============================================================================== term construction from bindings
class Untranslatable(Exception):
    pass


class Sem:
    """Builds z3 terms for Guppy operations out of the live bindings."""

    def __init__(self, bindings: dict[tuple[str, str], Binding]):
        self.b = bindings

    def call(self, ty: str, name: str, args: list, depth: int = 0):
        """(value, panics) of ty.name(*args) according to the binding. value may be a tuple."""
        if depth > 6:
            raise Untranslatable("recursion")
        bd = self.b.get((ty, name))
        if bd is None:
            raise Untranslatable(f"{ty} has no {name}")
        if bd.kind == "noop":
            return args[0], z3.BoolVal(False)
        if bd.kind == "op":
            if bd.op not in HUGR_BV:
                raise Untranslatable(f"op {bd.op} has no semantics in the table")
            ar, f, dfn = HUGR_BV[bd.op]
            if ar != len(args):
                raise Untranslatable(f"arity of {bd.op}")
            undefined = z3.Not(dfn(*args)) if dfn is not None else z3.BoolVal(False)
            return f(*args), undefined
        if bd.kind == "rev":
            # ReversingChecker.synthesize: f = get_instance_func(type(self_arg), target); f([other, self])
            return self.call(ty, bd.target, [args[1], args[0]], depth + 1)
        if bd.kind == "dunder":
            return self.call(ty, bd.target, args, depth + 1)
        if bd.kind == "body":
            return self.body(bd, args, depth + 1)
        raise Untranslatable(f"{ty}.{name}: kind {bd.kind}")

    # ---- tiny translator for the @guppy bodies in num.py / bool.py
    def body(self, bd: Binding, args: list, depth: int):
        fd = bd.fdef
        if fd is None:
            raise Untranslatable("no source")
        env = {}
        for a, v, t in zip(fd.args.args, args, bd.inputs):
            env[a.arg] = (v, t)
        panics = z3.BoolVal(False)
        for st in fd.body:
            if isinstance(st, ast.Expr) and isinstance(st.value, ast.Constant):
                continue  # docstring
            if isinstance(st, ast.If) and not st.orelse and len(st.body) == 1 and isinstance(st.body[0], ast.Expr) \
                    and isinstance(st.body[0].value, ast.Call) and ast.unparse(st.body[0].value.func) == "panic":
                c, ct, p = self.expr(st.test, env, depth)
                if ct != "bool":
                    raise Untranslatable("if on non-bool")
                panics = z3.Or(panics, p, c)
                continue
            if isinstance(st, ast.Return):
                v, t, p = self.expr(st.value, env, depth, want=bd.output)
                return v, z3.Or(panics, p)
            raise Untranslatable("statement " + ast.dump(st)[:80])
        raise Untranslatable("no return")

    def lit(self, node: ast.Constant, want: str | None):
        v = node.value
        if isinstance(v, bool):
            return z3.BoolVal(v), "bool"
        if isinstance(v, int):
            if want == "float":
                return z3.FPVal(float(v), F64), "float"
            return _bv(v), (want if want in ("nat", "int") else "int")
        if isinstance(v, float):
            return z3.FPVal(v, F64), "float"
        raise Untranslatable("literal")

    def expr(self, n: ast.expr, env, depth, want: str | None = None):
        """-> (term, guppy type name, panics)"""
        F = z3.BoolVal(False)
        if isinstance(n, ast.Name):
            v, t = env[n.id]
            return v, t, F
        if isinstance(n, ast.Constant):
            v, t = self.lit(n, want)
            return v, t, F
        if isinstance(n, ast.Tuple):
            parts = [self.expr(e, env, depth) for e in n.elts]
            return tuple(p[0] for p in parts), "tuple", z3.Or(*[p[2] for p in parts])
        if isinstance(n, ast.IfExp):
            c, ct, pc = self.expr(n.test, env, depth)
            a, ta, pa = self.expr(n.body, env, depth, want)
            b, tb, pb = self.expr(n.orelse, env, depth, want)
            if ct != "bool" or ta != tb:
                raise Untranslatable("ifexp types")
            return z3.If(c, a, b), ta, z3.Or(pc, z3.If(c, pa, pb))
        if isinstance(n, ast.UnaryOp) and isinstance(n.op, ast.Not):
            a, ta, pa = self.expr(n.operand, env, depth)
            if ta != "bool":
                a, pb = self.call(ta, "__bool__", [a], depth)
                pa = z3.Or(pa, pb)
            return z3.Not(a), "bool", pa
        if isinstance(n, (ast.BinOp, ast.Compare)):
            from_table = self._dunder_of(n)
            if isinstance(n, ast.BinOp):
                l, r = n.left, n.right
            else:
                if len(n.ops) != 1:
                    raise Untranslatable("chained compare")
                l, r = n.left, n.comparators[0]
            # literals adopt the type of the other operand (the checker coerces nat <- literal, float <- int)
            if isinstance(l, ast.Constant) and not isinstance(r, ast.Constant):
                b, tb, pb = self.expr(r, env, depth)
                a, ta, pa = self.expr(l, env, depth, want=tb)
            else:
                a, ta, pa = self.expr(l, env, depth)
                b, tb, pb = self.expr(r, env, depth, want=ta)
            if ta != tb:
                raise Untranslatable(f"mixed operand types {ta} {tb}")
            v, pv = self.call(ta, from_table, [a, b], depth)
            return v, self._ret_type(ta, from_table), z3.Or(pa, pb, pv)
        if isinstance(n, ast.Call):
            f = n.func
            if isinstance(f, ast.Name) and f.id in ("float", "int", "nat", "bool"):
                a, ta, pa = self.expr(n.args[0], env, depth, want=f.id if f.id in ("nat", "int") else None)
                if isinstance(n.args[0], ast.Constant) and ta == f.id:
                    return a, ta, pa
                v, pv = self.call(ta, f"__{f.id}__", [a], depth)
                return v, f.id, z3.Or(pa, pv)
            if isinstance(f, ast.Attribute):
                a, ta, pa = self.expr(f.value, env, depth)
                rest = [self.expr(x, env, depth, want=ta) for x in n.args]
                v, pv = self.call(ta, f.attr, [a] + [r[0] for r in rest], depth)
                return v, self._ret_type(ta, f.attr), z3.Or(pa, pv, *[r[2] for r in rest])
        raise Untranslatable("expression " + ast.dump(n)[:100])

    def _dunder_of(self, n) -> str:
        import lib.repo_env  # noqa: F401
        from guppylang_internals.checker.expr_checker import binary_table

        op = n.op if isinstance(n, ast.BinOp) else n.ops[0]
        return binary_table[op.__class__][0]

    def _ret_type(self, ty: str, dunder: str) -> str:
        bd = self.b.get((ty, dunder))
        out = (bd.output if bd else "") or ""
        if out in ("int", "nat", "float", "bool"):
            return out
        if out.startswith("tuple"):
            return "tuple"
        if bd is not None and bd.kind in ("rev", "dunder") and bd.target:
            return self._ret_type(ty, bd.target)
        return ty


# =============================================================================== obligations
@dataclass
class Query:
    name: str
    desc: str
    vars: list  # z3 consts
    var_types: list[str]
    formula: object  # satisfiable <=> property violated
    engine: str = "bv"  # bv | int
    region: str | None = None  # known-finding key this query is restricted to (finding probe), or None
    excluded: list[str] = field(default_factory=list)  # finding keys whose regions are excluded
    binding: str = ""
    ty: str = ""
    dunder: str = ""
    alt: "Query | None" = None  # integer-encoded twin tried when the BV query comes back unknown
    got: object = None  # the term built from the binding (for concrete replay)
    undefined: object = None
    swapped: bool = False
    direct: str = ""
    members: list = field(default_factory=list)  # queries sharing this formula (one solver call, several replays)


def _eq(x, y):
    if isinstance(x, tuple) or isinstance(y, tuple):
        if not (isinstance(x, tuple) and isinstance(y, tuple) and len(x) == len(y)):
            return z3.BoolVal(False)
        return z3.And(*[_eq(a, b) for a, b in zip(x, y)])
    if z3.is_fp(x):
        # same binary64 datum (NaNs identified): what a program can observe up to NaN payload
        return z3.Or(x == y, z3.And(z3.fpIsNaN(x), z3.fpIsNaN(y)))
    return x == y


#: known-finding regions: key -> (type, dunders, predicate over Python's (a, b) BV operands, the *documented
#: defective behaviour* inside the region).  Inside a listed region the main obligation demands exactly that
#: documented behaviour, so any other deviation in the region is still reported as a new violation.
def _defect_divisor_unsigned(dunder, a, b):
    q, r = _idivmod_s(a, b)
    return {"__floordiv__": q, "__mod__": r, "__divmod__": (q, r)}[dunder]


REGIONS = {
    "C04:int-floordiv-mod-negative-divisor": (
        "int", {"__floordiv__", "__mod__", "__divmod__", "__rfloordiv__", "__rmod__", "__rdivmod__"},
        lambda a, b: b < 0, _defect_divisor_unsigned),
    "C04:int-rshift-negative-operand": (
        "int", {"__rshift__", "__rrshift__"}, lambda a, b: z3.And(a < 0, b != 0),
        lambda dunder, a, b: z3.If(z3.ULT(b, W), z3.LShR(a, b), _bv(0))),
}


def build_queries(bindings, known: set[str]) -> tuple[list[Query], list[str]]:
    sem = Sem(bindings)
    qs: list[Query] = []
    skipped: list[str] = []
    for (ty, name), bd in sorted(bindings.items()):
        if ty == "builtin" or name in OUTSIDE:
            continue
        direct = name
        swapped = False
        if bd.kind == "rev":
            direct, swapped = bd.target, True
        key = (ty, direct)
        if key not in PY_BV:
            skipped.append(f"{ty}.{name}: no Python-semantics entry (outside the operator list of the property)")
            continue
        pyf, pydef = PY_BV[key]
        nargs = len(inspect.signature(pyf).parameters)
        in_types = [ty] * nargs
        if (ty, direct) in bindings and bindings[(ty, direct)].inputs:
            ins = bindings[(ty, direct)].inputs
            in_types = [t if t in ("int", "nat", "float", "bool") else ty for t in ins][:nargs]
        vs = [z3.Const(f"x{i}", sort_of(t)) for i, t in enumerate(in_types)]
        try:
            got, undefined = sem.call(ty, name, list(vs))
        except Untranslatable as e:
            skipped.append(f"{ty}.{name}: not translatable ({e})")
            continue
        # x.__rop__(y) is Python's `y op x`
        py_args = list(reversed(vs)) if swapped else list(vs)
        want = pyf(*py_args)
        defined = pydef(*py_args) if pydef is not None else z3.BoolVal(True)
        # violated iff Python's result is defined and (Guppy panics/undefined or differs)
        bad = z3.And(defined, z3.Or(undefined, z3.Not(_eq(got, want))))
        regs = [(k, r) for k, r in REGIONS.items() if r[0] == ty and name in r[1]]
        excl = []
        main = bad
        for k, (_, _, pred, defect) in regs:
            if k in known:
                in_region_new = z3.And(defined, pred(*py_args),
                                       z3.Or(undefined, z3.Not(_eq(got, defect(direct, *py_args)))))
                main = z3.Or(z3.And(main, z3.Not(pred(*py_args))), in_region_new)
                excl.append(k)
        q = Query(f"{ty}.{name}", bd.describe(), vs, in_types, main, excluded=excl, binding=bd.describe(), ty=ty, dunder=name,
                  got=got, undefined=undefined, swapped=swapped, direct=direct)
        # integer twin for the division family
        if key in PY_INT and bindings[(ty, direct)].kind == "op" and bindings[(ty, direct)].op in HUGR_INT:
            ia = [z3.Int(f"u{i}") for i in range(nargs)]
            rng = z3.And(*[z3.And(v >= 0, v < M) for v in ia])
            ip = list(reversed(ia)) if swapped else list(ia)
            hg = HUGR_INT[bindings[(ty, direct)].op](*ip)
            pw = PY_INT[key](*ip)
            ibad = z3.And(rng, ip[1] != 0, z3.Not(_eq(hg, pw)))
            for k, (_, _, pred, defect) in regs:
                if k in known:
                    # inside the listed region the live binding's own HUGR semantics is the documented defect
                    ibad = z3.And(ibad, z3.Not(_Sv(ip[1]) < 0))
            q.alt = Query(q.name + "[int]", q.desc, ia, in_types, ibad, engine="int", ty=ty, dunder=name)
        qs.append(q)
        for k, (_, _, pred, defect) in regs:
            qs.append(Query(f"{ty}.{name}@{k}", bd.describe(), vs, in_types, z3.And(bad, pred(*py_args)), region=k,
                            binding=bd.describe(), ty=ty, dunder=name, got=got, undefined=undefined, swapped=swapped, direct=direct))
    # ---- float // % divmod: Guppy computes floor(fl(a/b)); Python floors the *exact* quotient.  A sound
    # characterisation of one disagreement region that needs only one fpDiv and one fpFMA:
    #   a, b > 0 finite, q = fl(a/b) integral with 1 <= q <= 2^52, and q*b > a exactly (sign of the fused q*b - a)
    #   ==> Python: a // b == q - 1 and a % b == a - (q-1)*b (exact, like fmod)
    k = "C04:float-floordiv-floors-rounded-quotient"
    a, b = z3.Const("x0", F64), z3.Const("x1", F64)
    q = z3.fpDiv(RNE, a, b)
    one = z3.FPVal(1.0, F64)
    region = z3.And(z3.fpGEQ(a, z3.FPVal(1.0, F64)), z3.fpLEQ(a, z3.FPVal(100.0, F64)),
                    z3.fpGEQ(b, z3.FPVal(0.01, F64)), z3.fpLEQ(b, z3.FPVal(1.0, F64)),
                    q == z3.fpRoundToIntegral(RTN, q), z3.fpGEQ(q, one), z3.fpLEQ(q, z3.FPVal(2.0 ** 52, F64)),
                    z3.fpGT(z3.fpFMA(RNE, q, b, z3.fpNeg(a)), z3.FPVal(0.0, F64)))
    qm1 = z3.fpSub(RNE, q, one)
    py_mod = z3.fpFMA(RNE, z3.fpNeg(qm1), b, a)
    # One solver query: a point of the region.  Every point of it is a disagreement for all three operators
    # (Guppy yields q, Python q-1; Python's remainder lies in (0, b), Guppy's a - q*b is <= 0); the concrete
    # replay against CPython confirms that for //, % and divmod before anything is reported.
    members = []
    for name in ("__floordiv__", "__mod__", "__divmod__"):
        if ("float", name) not in bindings:
            continue
        try:
            got, undefined = sem.call("float", name, [a, b])
        except Untranslatable as e:
            skipped.append(f"float.{name}: not translatable ({e})")
            continue
        members.append(Query(f"float.{name}@{k}", bindings[("float", name)].describe(), [a, b], ["float", "float"], region, region=k,
                             binding=bindings[("float", name)].describe(), ty="float", dunder=name,
                             got=got, undefined=undefined, swapped=False, direct=name))
    if members:
        head = members[0]
        head.name = f"float.floordiv-mod-divmod@{k}"
        head.members = members
        qs.append(head)
    return qs, skipped


# =============================================================================== solving / replay
def model_values(q: Query, m) -> list:
    out = []
    for v, t in zip(q.vars, q.var_types):
        val = m.eval(v, model_completion=True)
        if z3.is_int_value(val):
            u = val.as_long() % M
            out.append(s64(u) if t == "int" else u)
        elif z3.is_bv_value(val):
            u = val.as_long()
            out.append(s64(u) if t == "int" else u)
        elif z3.is_fp(val):
            out.append(fp_to_py(val))
        else:
            out.append(bool(z3.is_true(val)))
    return out


def fp_to_py(val) -> float:
    if z3.is_true(z3.simplify(z3.fpIsNaN(val))):
        return float("nan")
    s = z3.simplify(z3.fpToIEEEBV(val))
    if z3.is_bv_value(s):
        return struct.unpack(">d", s.as_long().to_bytes(8, "big"))[0]
    return float(eval(str(val)))  # noqa: S307


def solve(q: Query, timeout_s: float, seed: int = 0) -> dict:
    s = z3.Solver()
    s.set("timeout", int(timeout_s * 1000))
    if seed:
        s.set("random_seed", seed)
        z3.set_param("sat.random_seed", seed)
        z3.set_param("smt.random_seed", seed)
    s.add(q.formula)
    t0 = time.time()
    r = str(s.check())
    dt = time.time() - t0
    out = {"name": q.name, "engine": f"z3-{q.engine}", "result": r, "solver_s": round(dt, 3)}
    if r == "sat":
        out["model"] = model_values(q, s.model())
    if r == "unknown":
        out["reason"] = s.reason_unknown()
    return out


def concrete_eval(bindings, ty: str, name: str, vals: list):
    """Evaluate ty.name(*vals) natively through the binding (HUGR_PY reference semantics) and Python's own
    result; returns (guppy_result_or_'panic', python_result_or_'undefined').  Used for replay."""
    bd = bindings[(ty, name)]

    def to_pat(v, t):
        return v % M if t in ("int", "nat") else v

    def from_pat(p, t):
        if t == "int":
            return s64(p)
        return p

    def run(ty, name, args, depth=0):
        b = bindings[(ty, name)]
        if b.kind == "noop":
            return args[0]
        if b.kind == "op":
            return HUGR_PY[b.op](*args)
        if b.kind == "rev":
            return run(ty, b.target, [args[1], args[0]], depth + 1)
        if b.kind == "dunder":
            return run(ty, b.target, args, depth + 1)
        raise NotImplementedError(b.kind)

    direct, swapped = (bd.target, True) if bd.kind == "rev" else (name, False)
    dbd = bindings[(ty, direct)]
    in_types = [t if t in ("int", "nat", "float", "bool") else ty for t in (dbd.inputs or [ty] * len(vals))][:len(vals)]
    try:
        g = run(ty, name, [to_pat(v, t) for v, t in zip(vals, in_types)])
    except (ZeroDivisionError, OverflowError):
        g = "panic"
    except NotImplementedError:
        g = "not-evaluable"
    pv = list(reversed(vals)) if swapped else list(vals)
    try:
        p = PY_REF[direct](*pv)
    except (ZeroDivisionError, OverflowError, ValueError):
        p = "undefined"
    out_t = dbd.output

    def norm(x, t):
        if isinstance(x, tuple):
            inner = t[t.index("[") + 1:-1].split(",") if "[" in t else [ty] * len(x)
            return tuple(norm(e, it.strip()) for e, it in zip(x, inner))
        if isinstance(x, bool) or isinstance(x, float) or isinstance(x, str):
            return x
        if t == "int":
            return s64(x)
        if t == "nat":
            return x % M
        return x

    return norm(g, out_t), norm(p, out_t)


# =============================================================================== table validation
def _rand_operand(t, rng):
    if t in ("int", "nat"):
        c = rng.random()
        if c < 0.4:
            return rng.choice([0, 1, 2, 3, 63, 64, 65, H - 1, H, H + 1, M - 1, M - 2, 7, M - 7, 1 << 53, (1 << 53) + 1])
        if c < 0.7:
            return rng.randrange(0, 200) if rng.random() < 0.5 else (M - rng.randrange(1, 200))
        return rng.getrandbits(64)
    if t == "float":
        c = rng.random()
        if c < 0.3:
            return rng.choice([0.0, -0.0, 1.0, -1.0, 0.5, 1.5, 2.5, -2.5, 1e300, -1e300, 5e-324, float("inf"), float("-inf"), 2.0 ** 63, -(2.0 ** 63), 2.0 ** 64])
        return struct.unpack(">d", rng.getrandbits(64).to_bytes(8, "big"))[0]
    return rng.random() < 0.5


def _to_z3(v, t):
    if t in ("int", "nat"):
        return _bv(v)
    if t == "float":
        if v != v:
            return z3.fpNaN(F64)
        return z3.FPVal(v, F64)
    return z3.BoolVal(v)


def _z3_to_py(term, kind_hint=None):
    if isinstance(term, tuple):
        return tuple(_z3_to_py(t) for t in term)
    v = z3.simplify(term)
    if z3.is_bv_value(v):
        return v.as_long()
    if z3.is_true(v):
        return True
    if z3.is_false(v):
        return False
    if z3.is_fp(v):
        if z3.is_true(z3.simplify(z3.fpIsNaN(v))):
            return float("nan")
        return fp_to_py(v)
    raise ValueError(f"not a value: {v}")


def _same(a, b) -> bool:
    if isinstance(a, tuple):
        return isinstance(b, tuple) and len(a) == len(b) and all(_same(x, y) for x, y in zip(a, b))
    if isinstance(a, float) and isinstance(b, float):
        return (a != a and b != b) or (a == b and math.copysign(1, a) == math.copysign(1, b))
    return a == b


_OP_ARG_TYPES = {"arithmetic.conversions.trunc_s": ["float"], "arithmetic.conversions.trunc_u": ["float"]}


def validate_tables(n_per_op: int = 60, seed: int = 0) -> tuple[int, list[str]]:
    """HUGR_BV term vs HUGR_PY function on concrete operands (both transcriptions of the HUGR spec must agree);
    PY_BV term vs CPython's own operator on concrete operands."""
    rng = random.Random(seed)
    n, bad = 0, []
    for name, (ar, f, dfn) in HUGR_BV.items():
        if name.endswith("pow") or name not in HUGR_PY:
            continue
        if name.startswith("arithmetic.float"):
            ts = ["float"] * ar
        elif name.startswith("tket.bool"):
            ts = ["bool"] * ar
        else:
            ts = _OP_ARG_TYPES.get(name, ["int"] * ar)
        for _ in range(n_per_op):
            vals = [_rand_operand(t, rng) for t in ts]
            zs = [_to_z3(v, t) for v, t in zip(vals, ts)]
            if dfn is not None and not z3.is_true(z3.simplify(dfn(*zs))):
                continue
            try:
                ref = HUGR_PY[name](*vals)
            except (ZeroDivisionError, OverflowError):
                bad.append(f"{name}{vals}: reference raises inside the definedness region")
                continue
            got = _z3_to_py(f(*zs))
            n += 1
            if not _same(got, ref):
                bad.append(f"{name}{vals}: z3 {got} vs reference {ref}")
    for (ty, dn), (f, dfn) in PY_BV.items():
        if dn in ("__pow__",):
            continue
        ar = len(inspect.signature(f).parameters)
        for _ in range(n_per_op):
            vals = [_rand_operand(ty, rng) for _ in range(ar)]
            zs = [_to_z3(v, ty) for v in vals]
            if dfn is not None and not z3.is_true(z3.simplify(dfn(*zs))):
                continue
            pv = [s64(v) if ty == "int" else v for v in vals]
            try:
                ref = PY_REF[dn](*pv)
            except (ZeroDivisionError, OverflowError, ValueError):
                continue
            if isinstance(ref, tuple):
                ref = tuple(r % M for r in ref)
            elif isinstance(ref, int) and not isinstance(ref, bool):
                ref = ref % M
            got = _z3_to_py(f(*zs))
            n += 1
            if not _same(got, ref):
                bad.append(f"python {ty}.{dn}{pv}: z3 {got} vs CPython {ref}")
    return n, bad


# =============================================================================== concrete replay
def replay(bindings, q: Query, vals: list) -> dict:
    """Evaluate the binding-derived term on the solver's concrete operands and compare with what *CPython itself*
    computes for the operator (reduced to 64 bit).  `reproduced` = they differ (or Guppy panics where Python
    is defined)."""
    sub = [(v, _to_z3(x % M if t in ("int", "nat") else x, t)) for v, x, t in zip(q.vars, vals, q.var_types)]
    und = z3.simplify(z3.substitute(q.undefined, *sub))
    if isinstance(q.got, tuple):
        g = tuple(_z3_to_py(z3.substitute(t, *sub)) for t in q.got)
    else:
        g = _z3_to_py(z3.substitute(q.got, *sub))
    pv = list(reversed(vals)) if q.swapped else list(vals)
    try:
        p = PY_REF[q.direct](*pv)
    except (ZeroDivisionError, OverflowError, ValueError) as e:
        return {"reproduced": False, "guppy": g, "python": f"undefined ({type(e).__name__})"}
    out_t = bindings[(q.ty, q.direct)].output

    def red(x):
        if isinstance(x, tuple):
            return tuple(red(e) for e in x)
        if isinstance(x, bool) or isinstance(x, float):
            return x
        return x % M

    p = red(p)
    panics = z3.is_true(und)
    show = (lambda x: tuple(show(e) for e in x) if isinstance(x, tuple) else (s64(x) if (out_t.startswith("int") or "int" in out_t) and isinstance(x, int) and not isinstance(x, bool) else x))
    return {"reproduced": bool(panics or not _same(g, p)), "guppy": "panic" if panics else show(g), "python": show(p),
            "binding": q.binding}
