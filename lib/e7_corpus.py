"""Corpora for the HUGR-level checks of C07 (borrowed arguments reflect the callee's in-place updates) and C19 (array access is
bounds-safe; unpacking / iteration / comprehension / copy see the elements in index order).

Programs are `p(x: int, y: int) -> int` over the opaque functions of lib/e4_corpus (f g h emit).  The helper functions that
mutate their borrowed arguments are written once (HELPERS) and used twice: decorated with @guppy in the module the real
compiler sees, and — annotations stripped — executed by CPython on lists (reference semantics), which is the property's oracle.
For C19 the native `array` is a list that panics on every index outside [0, n), the statement's oracle for indices."""
from __future__ import annotations

import ast

from lib import e4_corpus

HELPERS = '''
def set_at(xs: array[int, 3], i: int, v: int) -> None:
    xs[i] = v


def add_at(xs: array[int, 3], i: int, v: int) -> int:
    xs[i] += v
    return xs[i]


def swap01(xs: array[int, 3]) -> None:
    t = xs[0]
    xs[0] = xs[1]
    xs[1] = t


def rot(xs: array[int, 3]) -> None:
    swap01(xs)
    t = xs[1]
    xs[1] = xs[2]
    xs[2] = t


def twice(xs: array[int, 3], i: int) -> int:
    a = add_at(xs, i, 1)
    b = add_at(xs, i, 10)
    return a + b


def fill(xs: array[int, 3], v: int) -> None:
    i = 0
    while i < 3:
        xs[i] = v + i
        i += 1


def cond_set(xs: array[int, 3], c: bool, v: int) -> None:
    if c:
        xs[0] = v
    else:
        set_at(xs, 2, v)


def row_set(m: array[array[int, 3], 2], r: int, i: int, v: int) -> None:
    m[r][i] = v


def row_rot(m: array[array[int, 3], 2], r: int) -> None:
    rot(m[r])


def set2(xs: array[int, 2], i: int, v: int) -> None:
    xs[i] = v


def two(xs: array[int, 3], ys: array[int, 3]) -> None:
    xs[0] = ys[0] + 1
    ys[0] = xs[1] + 1


def box_bump(b: Box) -> None:
    b.xs[b.k] += 1
    set_at(b.xs, 0, b.k)
'''

HEADER_EXTRA = '''
@guppy.struct
class Box:
    xs: array[int, 3]
    k: int

'''


def _guppy_helpers() -> str:
    out = []
    for part in HELPERS.strip().split("\n\n\n"):
        out.append("@guppy\n" + part.strip() + "\n")
    return "\n\n".join(out) + "\n\n"


MODULE_EXTRA = HEADER_EXTRA + _guppy_helpers()


class _Strip(ast.NodeTransformer):
    def visit_FunctionDef(self, n):
        self.generic_visit(n)
        n.returns = None
        for a in n.args.args:
            a.annotation = None
        return n

    def visit_AnnAssign(self, n):
        return ast.Assign(targets=[n.target], value=n.value) if n.value is not None else None


_NATIVE_HELPERS = compile(ast.fix_missing_locations(_Strip().visit(ast.parse(HELPERS))), "<c07 helpers>", "exec")


class GArr(list):
    """the statement's oracle for array indices: an index outside [0, n) panics (Python would wrap negative ones)"""

    rec = None

    def _ix(self, i):
        if isinstance(i, int) and not (0 <= i < len(self)):
            from lib.e4 import Panic
            raise Panic("index out of bounds")
        return i

    def __getitem__(self, i):
        return list.__getitem__(self, self._ix(i))

    def __setitem__(self, i, v):
        list.__setitem__(self, self._ix(i), v)

    def copy(self):
        return GArr(self)


def native_env(strict_index: bool) -> dict:
    """extra bindings for the CPython side (lib.e4.Prog.run_native(extra=...))"""
    def array(*a):
        import types
        vals = list(a[0]) if len(a) == 1 and isinstance(a[0], types.GeneratorType) else list(a)
        return GArr(vals) if strict_index else vals

    class Box:
        def __init__(self, xs, k):
            self.xs, self.k = xs, k

    env = {"array": array, "Box": Box}
    exec(_NATIVE_HELPERS, env)  # noqa: S102
    env.pop("__builtins__", None)
    return env


C07_FIXED = [
    """
def b0(x: int, y: int) -> int:
    xs = array(1, 2, 3)
    set_at(xs, x % 3, f(0))
    r = add_at(xs, y % 3, g(1))
    swap01(xs)
    return r + xs[0] + xs[1] * 10 + xs[2] * 100
""",
    """
def b1(x: int, y: int) -> int:
    xs = array(x, y, 7)
    rot(xs)
    t = twice(xs, f(0) % 3)
    fill(xs, t)
    cond_set(xs, x > y, g(1))
    return xs[0] + xs[1] * 10 + xs[2] * 100
""",
    """
def b2(x: int, y: int) -> int:
    m = array(array(1, 2, 3), array(4, 5, 6))
    row_set(m, x % 2, y % 3, f(0))
    row_rot(m, (x + 1) % 2)
    set_at(m[1], 0, g(1))
    rot(m[x % 2])
    return m[0][0] + m[0][1] * 10 + m[0][2] * 100 + m[1][0] * 1000 + m[1][1] * 10000 + m[1][2] * 100000
""",
    """
def b3(x: int, y: int) -> int:
    xs = array(1, 2, 3)
    ys = array(x, y, 0)
    two(xs, ys)
    two(ys, xs)
    i = 0
    while i < 2:
        set_at(xs, i, add_at(ys, i, f(i)))
        i += 1
    return xs[0] + xs[1] * 10 + xs[2] * 100 + ys[0] * 1000 + ys[1] * 10000 + ys[2] * 100000
""",
    """
def b4(x: int, y: int) -> int:
    b = Box(array(x, y, 5), x % 3)
    box_bump(b)
    set_at(b.xs, 1, f(0))
    rot(b.xs)
    box_bump(b)
    return b.xs[0] + b.xs[1] * 10 + b.xs[2] * 100 + b.k * 1000
""",
    """
def b5(x: int, y: int) -> int:
    t = (array(1, 2, 3), x)
    set_at(t[0], t[1] % 3, y)
    rot(t[0])
    r = add_at(t[0], 0, g(0))
    return r + t[0][0] + t[0][1] * 10 + t[0][2] * 100
""",
    """
def b6(x: int, y: int) -> int:
    xs = array(0, 0, 0)
    if x > 0:
        fill(xs, y)
    else:
        set_at(xs, 1, y)
    for i in range(3):
        if i != x % 3:
            xs[i] += add_at(xs, (i + 1) % 3, i)
    return xs[0] + xs[1] * 10 + xs[2] * 100
""",
]

C07_FIXED += [
    """
def b7(x: int, y: int) -> int:
    bs = array(Box(array(1, 2, 3), 0), Box(array(4, 5, 6), 1))
    set_at(bs[x % 2].xs, y % 3, f(0))
    box_bump(bs[(x + 1) % 2])
    rot(bs[0].xs)
    r = add_at(bs[1].xs, x % 3, g(1))
    return r + bs[0].xs[0] + bs[0].xs[1] * 10 + bs[0].xs[2] * 100 + bs[1].xs[0] * 1000 + bs[1].xs[1] * 10000 + bs[1].xs[2] * 100000
""",
]

C19_FIXED = [
    """
def i0(x: int, y: int) -> int:
    xs = array(10, 20, 30)
    return xs[x] + xs[f(0)]
""",
    """
def i1(x: int, y: int) -> int:
    xs = array(10, 20, 30)
    xs[x] = y
    xs[g(0)] += 1
    return xs[0] + xs[1] * 10 + xs[2] * 100
""",
    """
def i2(x: int, y: int) -> int:
    m = array(array(1, 2, 3), array(4, 5, 6))
    j = f(0)
    m[x][j] = y
    k = g(1)
    t = m[k][x]
    return t + m[0][0] + m[0][1] * 10 + m[0][2] * 100 + m[1][0] * 1000 + m[1][1] * 10000 + m[1][2] * 100000
""",
    """
def i3(x: int, y: int) -> int:
    xs = array(x, y, f(0))
    a, b, c = xs
    emit(a)
    emit(b)
    emit(c)
    ys = array(x, y, 3, 4)
    d, *r, e = ys
    return d * 1000 + r[0] * 100 + r[1] * 10 + e
""",
    """
def i4(x: int, y: int) -> int:
    xs = array(x, y, f(0))
    ys = array(v * 2 + g(v) for v in xs)
    zs = ys.copy()
    zs[0] = 99
    for v in ys:
        emit(v)
    return zs[0] + zs[1] * 10 + zs[2] * 100
""",
    """
def i5(x: int, y: int) -> int:
    xs = array(1, 2, 3)
    set_at(xs, x, y)
    r = add_at(xs, f(0), 5)
    return r + xs[0] + xs[1] * 10 + xs[2] * 100
""",
]

C19_FIXED += [
    """
def i6(x: int, y: int) -> int:
    xs = array(11, 12, 13, 14, 15)
    a, *mid, p, q = xs
    ys = array(x, y, 3, 4, 5)
    *m2, r, s, t = ys
    return a + p * 10 + q * 100 + mid[0] * 1000 + mid[1] * 10000 + r * 3 + s * 5 + t * 7 + m2[0] + m2[1] * 2
""",
    """
def i7(x: int, y: int) -> int:
    c = array(array(array(1, 2), array(3, 4)), array(array(5, 6), array(7, 8)))
    set2(c[f(0) % 2][1], 0, y)
    t = c[g(1) % 2][0][1]
    c[h(2) % 2][1][0] += 5
    return t + c[0][1][0] + c[1][1][0] * 10 + c[0][1][1] * 100
""",
]


# programs inside known findings (probed separately): region tag -> programs
C19_REGIONS = {
    "whole-row-store": ["""
def w0(x: int, y: int) -> int:
    m = array(array(1, 2, 3), array(4, 5, 6))
    m[x % 2] = array(7, 8, y)
    return m[0][0] + m[0][2] * 10 + m[1][0] * 100 + m[1][2] * 1000
"""],
}


def gen_c07_program(j: int, seed: int) -> str:
    """a generated caller: an int array xs, a second one ys and a 2 x 3 array of arrays m, a random sequence of borrowing calls (with computed, sometimes
    effectful indices and values), some of them under `if` / inside a `for`; all elements are observed at the end"""
    import random
    r = random.Random(f"c07-{seed}-{j}")
    atoms = ["x", "y", "1", "2", "5", "r"]

    def atom():
        return r.choice(atoms)

    def val():
        k = r.random()
        if k < 0.3:
            return f"{r.choice('fgh')}({atom()})"
        if k < 0.6:
            return f"({atom()} + {atom()})"
        return atom()

    def idx(n):
        k = r.random()
        if k < 0.35:
            return str(r.randrange(n))
        if k < 0.55:
            return f"{r.choice('fgh')}({atom()}) % {n}"
        return f"({atom()} + {atom()}) % {n}"

    def stmt():
        t = r.randrange(13)
        if t == 0:
            return f"set_at(xs, {idx(3)}, {val()})"
        if t == 1:
            return f"r += add_at(xs, {idx(3)}, {val()})"
        if t == 2:
            return "swap01(ys)"
        if t == 3:
            return "rot(xs)"
        if t == 4:
            return f"r += twice(ys, {idx(3)})"
        if t == 5:
            return f"fill(ys, {val()})"
        if t == 6:
            return f"cond_set(xs, {atom()} > {atom()}, {val()})"
        if t == 7:
            return "two(xs, ys)"
        if t == 8:
            return f"row_set(m, {idx(2)}, {r.randrange(3)}, {val()})"
        if t == 9:
            return f"row_rot(m, {idx(2)})"
        if t == 10:
            return f"set_at(m[{idx(2)}], {r.randrange(3)}, {val()})"
        if t == 11:
            return f"rot(m[{idx(2)}])"
        return f"r += add_at(m[{r.randrange(2)}], {idx(3)}, {atom()})"

    lines = [f"def c{j}(x: int, y: int) -> int:", "    r = 0", "    xs = array(x, 2, 3)", "    ys = array(4, y, 6)", "    m = array(array(1, 2, 3), array(x, y, 6))"]
    for _ in range(r.randint(3, 6)):
        k = r.random()
        if k < 0.2:
            lines += [f"    if {atom()} > {atom()}:", f"        {stmt()}"] + ([f"    else:", f"        {stmt()}"] if r.random() < 0.5 else [])
        elif k < 0.3:
            lines += [f"    for i in range({r.randint(1, 3)}):", f"        {stmt()}"]
        else:
            lines.append(f"    {stmt()}")
    lines.append("    return r + xs[0] + xs[1] * 3 + xs[2] * 5 + ys[0] * 7 + ys[1] * 11 + ys[2] * 13 + m[0][0] * 17 + m[0][1] * 19 + m[0][2] * 23 + m[1][0] * 29 + m[1][1] * 31 + m[1][2] * 37")
    return "\n".join(lines) + "\n"


def corpus(kind: str, region: str | None = None, n: int = 0, seed: int = 0) -> list[str]:
    if region:
        return list(C19_REGIONS.get(region, [])) if kind == "c19" else []
    if kind == "c07":
        return list(C07_FIXED) + [gen_c07_program(j, seed) for j in range(n)]
    return list(C19_FIXED)


def module_text(progs: list[str]) -> str:
    return e4_corpus.module_text(progs, MODULE_EXTRA)
