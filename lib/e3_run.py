"""Process-pool side of E3: each worker rebuilds bindings + queries from /repo once, then solves by name."""
from __future__ import annotations

import sys

_STATE: dict = {}


def init(known: list[str]):
    import lib.repo_env  # noqa: F401
    from lib import e3_num as E

    b = E.extract_bindings()
    qs, skipped = E.build_queries(b, set(known))
    _STATE.update(E=E, b=b, qs={q.name: q for q in qs}, skipped=skipped)


def solve_named(name: str, t_bv: float, t_int: float, seed: int = 0) -> dict:
    E = _STATE["E"]
    q = _STATE["qs"][name]
    r = E.solve(q, t_bv, seed)
    r["seed"] = seed
    r["desc"] = q.desc
    r["region"] = q.region
    r["excluded"] = q.excluded
    r["attempts"] = [dict(engine=r["engine"], result=r["result"], solver_s=r["solver_s"])]
    if r["result"] == "unknown" and q.alt is not None:
        r2 = E.solve(q.alt, t_int)
        r["attempts"].append(dict(engine=r2["engine"], result=r2["result"], solver_s=r2["solver_s"]))
        r["result"], r["engine"] = r2["result"], r2["engine"]
        r["solver_s"] = round(r["solver_s"] + r2["solver_s"], 3)
        if "model" in r2:
            r["model"] = r2["model"]
    if r["result"] == "sat":
        r["replay"] = E.replay(_STATE["b"], q, r["model"])
        if q.members:
            # one formula, several operators: every one of them must disagree with CPython on the model
            reps = {m.dunder: E.replay(_STATE["b"], m, r["model"]) for m in q.members}
            r["member_replays"] = reps
            r["replay"] = {"reproduced": all(x["reproduced"] for x in reps.values()),
                           "guppy": {k: v["guppy"] for k, v in reps.items()}, "python": {k: v["python"] for k, v in reps.items()},
                           "binding": "; ".join(v.get("binding", "") for v in reps.values())}
    return r


def replay_main(name: str, vals: list, known: list[str]) -> int:
    """entry point of a replay script: exit 1 = reproduces"""
    init(known)
    E = _STATE["E"]
    q = _STATE["qs"].get(name)
    if q is None:
        print(f"no query {name}")
        return 3
    if q.members:
        rc = 0
        for m in q.members:
            r = E.replay(_STATE["b"], m, vals)
            print(f"float.{m.dunder}{tuple(vals)}: Guppy ({r.get('binding')}) gives {r['guppy']}, Python gives {r['python']}")
            rc |= 1 if r["reproduced"] else 0
        print("REPRODUCED" if rc else "not reproduced")
        return rc
    r = E.replay(_STATE["b"], q, vals)
    print(f"{name}{tuple(vals)}: Guppy ({r.get('binding')}) gives {r['guppy']}, Python gives {r['python']}")
    if r["reproduced"]:
        print("REPRODUCED")
        return 1
    return 0
