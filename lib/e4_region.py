"""Syntactic region predicates of the two known evaluation-order findings (C03/C05), used to keep the main corpora
outside the known-defective region and to build the finding probes.

The builder turns `v := e`, `a if c else b`, `a and b` / `a or b` and chained comparisons into statements / control flow
*before* the enclosing expression is evaluated ("hoisting").  That is observable exactly when an operand that Python
evaluates earlier (a sibling to the left) is order-sensitive with respect to the hoisted part:
  hoist-order   the earlier operand makes an opaque call and the hoisted part makes one too (their order flips), or the
                earlier operand reads a variable that the hoisted part assigns through `:=` (it sees the new value); an
                earlier `v := e` counts as a read of v, because the builder leaves just the name v in its place
  chain-middle  a chained comparison whose middle operand makes a call or assigns (`a < g(x) < b` evaluates g twice)
  reflected-compare  (visible only at the checked-program level, E5) a comparison whose left operand has the narrower numeric type
                (int vs. float) is resolved through the *reflected* comparison of the right operand, whose call takes the operands in
                swapped order: `f(5) < ff(6)` calls ff before f.  Region: a comparison with an opaque int-valued call on the left
                and the opaque float-valued call `ff` on the right.
  subscript-order   (visible only at the checked-program level, E5) a subscript whose container is not a place (`mk(x)[g(2)]`): the
                checker names the index first and passes the container expression as an argument of the `__getitem__` call that
                follows, so the index is evaluated before the container.  Region: a subscript of a non-place expression where both
                the container and the index make a call (or the index assigns a variable the container reads).
  nested-subscript-order   (E5 level) `m[i][j]`, read or stored: the outer index j is evaluated before the inner index i.
                Region: a chain of subscripts in which two indices make a call (or one assigns a variable another reads).
`tags(src)` returns the set of tags that apply anywhere in the program."""
from __future__ import annotations

import ast

CALLS = {"f", "g", "h", "emit", "result", "panic"}


def _hoisted(n) -> bool:
    return isinstance(n, (ast.NamedExpr, ast.IfExp, ast.BoolOp)) or (isinstance(n, ast.Compare) and len(n.comparators) > 1)


PURE = {"array", "len"}     # constructors / queries without events: their position among the events is unobservable


def _calls(n) -> bool:
    return any(isinstance(m, ast.Call) and not (isinstance(m.func, ast.Name) and m.func.id in PURE) for m in ast.walk(n))


def _reads(n) -> set:
    return {m.id for m in ast.walk(n) if isinstance(m, ast.Name) and isinstance(m.ctx, ast.Load)}


def _hoisted_parts(n):
    """hoisted constructs inside n (outermost ones suffice: what is inside them moves with them)"""
    if _hoisted(n):
        yield n
        return
    for c in ast.iter_child_nodes(n):
        if isinstance(c, ast.expr):
            yield from _hoisted_parts(c)


def _walrus_targets(n) -> set:
    return {m.target.id for m in ast.walk(n) if isinstance(m, ast.NamedExpr) and isinstance(m.target, ast.Name)}


def _ordered_children(n):
    """operands in Python's evaluation order, for the node kinds whose operands the builder leaves in place"""
    if isinstance(n, ast.BinOp):
        return [n.left, n.right]
    if isinstance(n, ast.Compare) and len(n.comparators) == 1:
        return [n.left, n.comparators[0]]
    if isinstance(n, ast.Call):
        return [n.func, *n.args, *[k.value for k in n.keywords]]
    if isinstance(n, (ast.Tuple, ast.List, ast.Set)):
        return list(n.elts)
    if isinstance(n, ast.Subscript):
        return [n.value, n.slice]
    return None


def _is_place(n) -> bool:
    while isinstance(n, (ast.Attribute, ast.Subscript)):
        n = n.value
    return isinstance(n, ast.Name)


def _sensitive(earlier, later) -> bool:
    hs = list(_hoisted_parts(later))
    if not hs:
        return False
    if _calls(earlier) and any(_calls(h) for h in hs):
        return True
    assigned = set().union(*[_walrus_targets(h) for h in hs])
    # a `v := e` in the earlier operand is itself replaced by a later read of v, so its target counts as read
    return bool((_reads(earlier) | _walrus_targets(earlier)) & assigned)


def tags(src: str) -> set:
    out = set()
    tree = ast.parse(src)
    for n in ast.walk(tree):
        if isinstance(n, ast.Compare) and len(n.comparators) > 1:
            for mid in n.comparators[:-1]:
                if _calls(mid) or _walrus_targets(mid):
                    out.add("chain-middle")
            ops = [n.left, *n.comparators]
            for a, b in zip(ops[:-1], ops[1:]):
                if _sensitive(a, b):
                    out.add("hoist-order")
        if isinstance(n, ast.Compare):
            ops = [n.left, *n.comparators]
            for a, b in zip(ops[:-1], ops[1:]):
                fa = {m.func.id for m in ast.walk(a) if isinstance(m, ast.Call) and isinstance(m.func, ast.Name)}
                fb = {m.func.id for m in ast.walk(b) if isinstance(m, ast.Call) and isinstance(m.func, ast.Name)}
                if fa and "ff" not in fa and "ff" in fb:
                    out.add("reflected-compare")
        if isinstance(n, ast.Subscript) and isinstance(n.ctx, ast.Load) and not _is_place(n.value):
            if (_calls(n.value) and _calls(n.slice)) or (_reads(n.value) & _walrus_targets(n.slice)):
                out.add("subscript-order")
        if isinstance(n, ast.Subscript):
            idx, m = [n.slice], n.value
            while isinstance(m, (ast.Subscript, ast.Attribute)):
                if isinstance(m, ast.Subscript):
                    idx.append(m.slice)
                m = m.value
            for a in range(len(idx)):
                for b in range(a + 1, len(idx)):
                    if (_calls(idx[a]) and _calls(idx[b])) or (_reads(idx[a]) & _walrus_targets(idx[b])) or (_reads(idx[b]) & _walrus_targets(idx[a])):
                        out.add("nested-subscript-order")
        kids = _ordered_children(n)
        if kids:
            for j in range(1, len(kids)):
                for i in range(j):
                    if _sensitive(kids[i], kids[j]):
                        out.add("hoist-order")
        if isinstance(n, ast.AugAssign):
            # `t op= e` reads t first
            hs = list(_hoisted_parts(n.value))
            names = {m.id for m in ast.walk(n.target) if isinstance(m, ast.Name)}       # (`xs[i] op= e` reads xs and i first)
            if any(names & _walrus_targets(h) for h in hs):
                out.add("hoist-order")
    return out
