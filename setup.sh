#!/bin/bash
# Build the overlay interpreter /verif/.venv (offline): /venv's python 3.12 + /venv's
# site-packages (hugr, tket_exts, ... needed to import /repo's sources) + crosshair-tool,
# z3-solver from the local wheelhouse.  Idempotent.
set -e
cd "$(dirname "$0")"
V=.venv
if [ -x $V/bin/python ] && $V/bin/python -c "import crosshair, z3, hugr" 2>/dev/null; then
  exit 0
fi
(
  flock 9
  if [ -x $V/bin/python ] && $V/bin/python -c "import crosshair, z3, hugr" 2>/dev/null; then exit 0; fi
  rm -rf $V
  /venv/bin/python -m venv $V
  SP=$($V/bin/python -c "import sysconfig; print(sysconfig.get_paths()['purelib'])")
  echo "/venv/lib/python3.12/site-packages" > "$SP/zz_base_venv.pth"
  PIP_NO_INDEX=1 $V/bin/pip install -q --no-index --find-links /opt/veriftools/wheels crosshair-tool z3-solver >/dev/null
  $V/bin/python -c "import crosshair, z3, hugr; print('overlay ok', crosshair.__version__, z3.get_version_string())"
) 9>/var/lock/verif-setup.lock 2>&1 || { echo "setup failed"; exit 3; }
